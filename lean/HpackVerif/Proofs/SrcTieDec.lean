import HpackVerif.Generated.SrcDec
import HpackVerif.Proofs.SrcTieTable
import HpackVerif.Proofs.SrcTieHuff
import HpackVerif.Impl.Api
import HpackVerif.Props.Common
/-! The hand-written model of `Decoder` (`Impl.decodeField`, `decodeLiteral`, `decodeLoop`, `decodeApi`) equals the
mechanical translation of the `Decoder` class of `src/hpack/hpack.py` (`Generated/SrcDec.lean`).

`absD` reads a model decoder state as the Python object. A translated method returns the updated object with its value,
or the exception with the object as it was when raised (`Py.RS`). `Agree r o okv sErr` says: the model outcome `o` is a
value ⇒ `r` returns `okv` of it; a documented error ⇒ `r` raises that class and leaves the object `sErr`; an escape
(an undocumented exception the model marks and the C04 theorems prove unreachable) ⇒ `r` raises that class. -/
namespace SrcTie
open Py

def hproj (h : Impl.Header) : Py.Header := (h.name.bytes, h.value.bytes, h.never)

/-- the Python object a model decoder state stands for -/
def absD (st : Impl.DecState) : Src.Decoder :=
  { f_header_table := absT st.table, f_max_header_list_size := (st.listLimit : Int), f_max_allowed_table_size := (st.allowed : Int) }

def excOfErr : Impl.DErr → Py.Exc
  | .decoding => .hpackDecodingError
  | .invalidIndex => .invalidTableIndex
  | .invalidTableSize => .invalidTableSizeError
  | .oversized => .oversizedHeaderListError

def excOfEsc : Impl.PyExc → Py.Exc
  | .valueError => .valueError
  | .indexError => .indexError
  | .nonTermination => .nonTermination

def Agree {σ α β} (r : Py.RS σ β) (o : Impl.Out α) (okv : α → β) (sErr : σ) : Prop :=
  match o with
  | .ok a => r = .ok (okv a)
  | .err e => r = .error (excOfErr e, sErr)
  | .esc x => dropS r = .error (excOfEsc x)

theorem outToR_ok {α} (a : α) : outToR (.ok a : Impl.Out α) = .ok a := rfl
theorem outToR_err {α} (e : Impl.DErr) : outToR (.err e : Impl.Out α) = .error (excOfErr e) := by cases e <;> rfl
theorem outToR_esc {α} (x : Impl.PyExc) : outToR (.esc x : Impl.Out α) = .error (excOfEsc x) := by cases x <;> rfl

theorem dropS_eq_ok {σ α} (r : Py.RS σ α) (a : α) (h : dropS r = .ok a) : r = .ok a := by
  cases r with
  | ok b => simpa [dropS] using h
  | error es => cases es; simp [dropS] at h

/-- `decode_integer` inside a method, with enough fuel: the model's outcome (exceptions leave the object as it is) -/
theorem decode_integer_eq (fuel : Nat) (data : Bytes) (N : Nat) (hN : 1 ≤ N ∧ N ≤ 8) (hf : fuel > data.length) :
    Src.decode_integer fuel data (N : Int) = outToR (castPair (Impl.decodeInt Gen.intCap data N)) := by
  obtain ⟨f0, h⟩ := decode_integer_tie data (N : Int)
  have hc : Gen.intCap = some Src.c__MAX_INTEGER_SHIFT.toNat := by decide
  -- the tie holds from `data.length + 1` on (its witness); restate it with that bound
  have := decode_integer_core Src.c__MAX_INTEGER_SHIFT.toNat (by decide) data N
  rw [hc]
  rcases (show N = 1 ∨ N = 2 ∨ N = 3 ∨ N = 4 ∨ N = 5 ∨ N = 6 ∨ N = 7 ∨ N = 8 by omega) with h | h | h | h | h | h | h | h <;> subst h <;>
    exact decode_integer_core _ (by decide) data _ _ _ (by decide) rfl (by decide) rfl (by decide) fuel (by omega)

/-- the table operations have no documented error of their own (only the escapes the model marks) -/
theorem shrinkLoop_no_err (m : Nat) : ∀ (rev : List Impl.Entry) (cur : Int) (e : Impl.DErr), Impl.shrinkLoop m rev cur ≠ .err e := by
  intro rev
  induction rev with
  | nil => intro cur e; unfold Impl.shrinkLoop; split <;> simp
  | cons x r ih => intro cur e; unfold Impl.shrinkLoop; split <;> simp [ih]

theorem shrink_no_err (t : Impl.Table) (e : Impl.DErr) : t.shrink ≠ .err e := by
  unfold Impl.Table.shrink
  have := shrinkLoop_no_err t.maxsize t.entries.reverse t.curSize
  split <;> simp_all

theorem setMaxsize_no_err (t : Impl.Table) (v : Nat) (e : Impl.DErr) : t.setMaxsize v ≠ .err e := by
  unfold Impl.Table.setMaxsize
  simp only
  split
  · simp
  · split
    · exact shrink_no_err _ e
    · simp

theorem add_no_err (t : Impl.Table) (n v : Impl.PyBuf) (e : Impl.DErr) : t.add n v ≠ .err e := by
  unfold Impl.Table.add
  simp only
  split
  · simp
  · exact shrink_no_err _ e

theorem obind_ok {α β} (a : α) (f : α → Impl.Out β) : ((Impl.Out.ok a : Impl.Out α) >>= f) = f a := rfl
theorem obind_err {α β} (e : Impl.DErr) (f : α → Impl.Out β) : ((Impl.Out.err e : Impl.Out α) >>= f) = .err e := rfl
theorem obind_esc {α β} (x : Impl.PyExc) (f : α → Impl.Out β) : ((Impl.Out.esc x : Impl.Out α) >>= f) = .esc x := rfl
theorem opure {α} (a : α) : (pure a : Impl.Out α) = .ok a := rfl

theorem ebind_ok {ε α β} (a : α) (f : α → Except ε β) : Except.bind (Except.ok a : Except ε α) f = f a := rfl
theorem ebind_err {ε α β} (e : ε) (f : α → Except ε β) : Except.bind (Except.error e : Except ε α) f = .error e := rfl

theorem maxsize_get_eq (fuel : Nat) (t : Impl.Table) :
    Src.HeaderTable.maxsize_get fuel (absT t) = .ok (absT t, (t.maxsize : Int)) := rfl

theorem liftSub_ok {σ τ α} (s : σ) (put : σ → τ → σ) (t : τ) (a : α) :
    Py.liftSub s put (.ok (t, a) : Py.RS τ (τ × α)) = .ok (put s t, a) := rfl
theorem liftSub_error {σ τ α} (s : σ) (put : σ → τ → σ) (e : Py.Exc) (t : τ) :
    Py.liftSub s put (.error (e, t) : Py.RS τ (τ × α)) = .error (e, put s t) := rfl

theorem absD_table (st : Impl.DecState) (t' : Impl.Table) :
    ({ absD st with f_header_table := absT t' } : Src.Decoder) = absD { st with table := t' } := rfl

/-- `Decoder.header_table_size` (getter) -/
theorem header_table_size_get_eq (fuel : Nat) (st : Impl.DecState) :
    Src.Decoder.header_table_size_get fuel (absD st) = .ok (absD st, (st.table.maxsize : Int)) := by
  unfold Src.Decoder.header_table_size_get
  show (Py.liftSub (absD st) _ (Src.HeaderTable.maxsize_get fuel (absT st.table)) >>= _) = _
  rw [maxsize_get_eq, liftSub_ok]
  rfl

/-- `Decoder.header_table_size = v` (setter) for a non-negative `v` -/
theorem header_table_size_set_agree (fuel : Nat) (st : Impl.DecState) (v : Nat) (hf : fuel > st.table.entries.length) :
    Agree (Src.Decoder.header_table_size_set fuel (absD st) (v : Int)) (st.table.setMaxsize v)
      (fun t' => (absD { st with table := t' }, ())) (absD st) := by
  have ht := maxsize_set_tie st.table v fuel hf
  unfold Src.Decoder.header_table_size_set
  show Agree (Py.liftSub (absD st) _ (Src.HeaderTable.maxsize_set fuel (absT st.table) (v : Int)) >>= _) _ _ _
  unfold tableRes at ht
  cases ho : st.table.setMaxsize v with
  | ok t' =>
    rw [ho] at ht
    have := dropS_eq_ok _ _ ht
    simp only [Agree, this, liftSub_ok]
    rfl
  | err e => exact absurd ho (setMaxsize_no_err _ _ e)
  | esc x =>
    rw [ho] at ht
    simp only [Agree]
    cases hr : Src.HeaderTable.maxsize_set fuel (absT st.table) (v : Int) with
    | ok a => rw [hr] at ht; simp [dropS, mapOut, outToR_esc] at ht
    | error es =>
      obtain ⟨e, s⟩ := es
      rw [hr] at ht
      simp only [dropS, mapOut, outToR_esc, Except.error.injEq] at ht
      simp [liftSub_error, dropS, bind, Except.bind, ht]

/-- `_assert_valid_table_size` -/
theorem assert_valid_table_size_eq (fuel : Nat) (st : Impl.DecState) :
    Src.Decoder.assert_valid_table_size fuel (absD st) =
      if st.table.maxsize > st.allowed then .error (.invalidTableSizeError, absD st) else .ok (absD st, ()) := by
  unfold Src.Decoder.assert_valid_table_size
  simp only [header_table_size_get_eq, bind, Except.bind]
  by_cases h : st.table.maxsize > st.allowed
  · have h' : (st.table.maxsize : Int) > (absD st).f_max_allowed_table_size := by simp only [absD]; omega
    simp [h, h']
  · have h' : ¬ ((st.table.maxsize : Int) > (absD st).f_max_allowed_table_size) := by simp only [absD]; omega
    simp [h, h']

/-- the model's handling of a dynamic table size update (the third branch of `Impl.decodeField`) -/
def mSizeUpdate (st : Impl.DecState) (data : Bytes) : Impl.Out (Nat × Impl.DecState) :=
  match Impl.decodeInt Gen.intCap data 5 with
  | .ok (newSize, consumed) =>
    if newSize > st.allowed then .err .invalidTableSize
    else match st.table.setMaxsize newSize with
      | .ok t' => .ok (consumed, { st with table := t' })
      | .err e => .err e
      | .esc x => .esc x
  | .err e => .err e
  | .esc x => .esc x

theorem liftR_outToR_ok {σ α} (s : σ) (a : α) : Py.liftR s (outToR (.ok a : Impl.Out α)) = .ok a := rfl
theorem liftR_outToR_err {σ α} (s : σ) (e : Impl.DErr) : Py.liftR s (outToR (.err e : Impl.Out α)) = .error (excOfErr e, s) := by
  cases e <;> rfl
theorem liftR_outToR_esc {σ α} (s : σ) (x : Impl.PyExc) : Py.liftR s (outToR (.esc x : Impl.Out α)) = .error (excOfEsc x, s) := by
  cases x <;> rfl

/-- `_update_encoding_context` -/
theorem update_encoding_context_agree (fuel : Nat) (st : Impl.DecState) (data : Bytes)
    (hf : fuel > data.length) (hf2 : fuel > st.table.entries.length) :
    Agree (Src.Decoder.update_encoding_context fuel (absD st) data) (mSizeUpdate st data)
      (fun r => (absD r.2, (r.1 : Int))) (absD st) := by
  unfold Src.Decoder.update_encoding_context mSizeUpdate
  have hd := decode_integer_eq fuel data 5 (by omega) hf
  have h5 : ((5 : Nat) : Int) = (5 : Int) := rfl
  rw [h5] at hd
  rw [hd]
  cases hi : Impl.decodeInt Gen.intCap data 5 with
  | err e => simp only [castPair, liftR_outToR_err, Agree]; rfl
  | esc x => simp only [castPair, liftR_outToR_esc, Agree]; rfl
  | ok r =>
    obtain ⟨n, c⟩ := r
    simp only [castPair, liftR_outToR_ok, bind, Except.bind]
    by_cases hgt : n > st.allowed
    · have hgt' : (n : Int) > (absD st).f_max_allowed_table_size := by simp only [absD]; omega
      simp only [hgt, hgt', if_true, Agree, excOfErr]
    · have hgt' : ¬ ((n : Int) > (absD st).f_max_allowed_table_size) := by simp only [absD]; omega
      simp only [hgt, hgt', if_false]
      have hs := header_table_size_set_agree fuel st n hf2
      cases ho : st.table.setMaxsize n with
      | ok t' =>
        rw [ho] at hs
        simp only [Agree] at hs ⊢
        simp only [hs]
      | err e => exact absurd ho (setMaxsize_no_err _ _ e)
      | esc x =>
        rw [ho] at hs
        simp only [Agree] at hs ⊢
        cases hr : Src.Decoder.header_table_size_set fuel (absD st) (n : Int) with
        | ok a => rw [hr] at hs; simp [dropS] at hs
        | error es =>
          obtain ⟨e, s⟩ := es
          rw [hr] at hs
          simp only [dropS, Except.error.injEq] at hs
          simp [dropS, hs]

/-- the model's handling of an indexed field (the first branch of `Impl.decodeField`) -/
def mIndexed (st : Impl.DecState) (data : Bytes) : Impl.Out (Impl.Header × Nat) :=
  match Impl.decodeInt Gen.intCap data 7 with
  | .ok (index, consumed) =>
    match st.table.getByIndex index with
    | .ok e => .ok (⟨e.1, e.2, false⟩, consumed)
    | .err e => .err e
    | .esc x => .esc x
  | .err e => .err e
  | .esc x => .esc x

/-- `_decode_indexed` -/
theorem decode_indexed_agree (fuel : Nat) (st : Impl.DecState) (data : Bytes) (hf : fuel > data.length) :
    Agree (Src.Decoder.decode_indexed fuel (absD st) data) (mIndexed st data)
      (fun r => (absD st, (hproj r.1, (r.2 : Int)))) (absD st) := by
  unfold Src.Decoder.decode_indexed mIndexed
  have hd := decode_integer_eq fuel data 7 (by omega) hf
  have h7 : ((7 : Nat) : Int) = (7 : Int) := rfl
  rw [h7] at hd
  rw [hd]
  cases hi : Impl.decodeInt Gen.intCap data 7 with
  | err e => simp only [castPair, liftR_outToR_err, Agree]; rfl
  | esc x => simp only [castPair, liftR_outToR_esc, Agree]; rfl
  | ok r =>
    obtain ⟨i, c⟩ := r
    simp only [castPair, liftR_outToR_ok, bind, Except.bind]
    have hg := get_by_index_tie st.table i fuel
    have habs : (absD st).f_header_table = absT st.table := rfl
    rw [habs, hg]
    cases ho : st.table.getByIndex i with
    | ok e => simp [mapOut, liftR_outToR_ok, liftSub_ok, Agree, hproj, proj, absD]
    | err e => simp only [mapOut, liftR_outToR_err, liftSub_error, Agree]; rfl
    | esc x => simp only [mapOut, liftR_outToR_esc, liftSub_error, Agree, dropS]

/-! ### `_decode_literal`: the translated method, restructured into named pieces -/

abbrev putT : Src.Decoder → Src.HeaderTable → Src.Decoder := fun s x => { s with f_header_table := x }

/-- build the header, insert it when indexing -/
def sTail (fuel : Nat) (self : Src.Decoder) (name value : Bytes) (total : Int) (ni si : Bool) :
    Py.RS Src.Decoder (Src.Decoder × (Py.Header × Int)) :=
  if ni = true then
    (if si = true then
      Except.bind (Py.liftSub self putT (Src.HeaderTable.add fuel self.f_header_table name value)) fun r =>
        .ok (r.1, ((name, value, true), total))
    else .ok (self, ((name, value, true), total)))
  else
    (if si = true then
      Except.bind (Py.liftSub self putT (Src.HeaderTable.add fuel self.f_header_table name value)) fun r =>
        .ok (r.1, ((name, value, false), total))
    else .ok (self, ((name, value, false), total)))

/-- read one length-prefixed string at `data` (Huffman-coded or plain) and go on with `k string length consumed` -/
def sReadStr {β} (fuel : Nat) (self : Src.Decoder) (data : Bytes) (k : Bytes → Int → Int → Py.RS Src.Decoder β) : Py.RS Src.Decoder β :=
  Except.bind (Py.liftR self (Src.decode_integer fuel data 7)) fun t =>
  Except.bind (Py.liftR self (Py.slice data t.2 (t.2 + t.1))) fun v =>
  if ((v.length : Int) ≠ t.1) then .error (.hpackDecodingError, self)
  else
    Except.bind (Py.liftR self (Py.getByte data 0)) fun b =>
    if (Py.band b 128 ≠ 0) then
      Except.bind (Py.liftR self (Src.decode_huffman fuel v)) fun h => k h t.1 t.2
    else k v t.1 t.2

/-- read the value string at `data` and finish -/
def sValue (fuel : Nat) (self : Src.Decoder) (name : Bytes) (total0 : Int) (data : Bytes) (ni si : Bool) :
    Py.RS Src.Decoder (Src.Decoder × (Py.Header × Int)) :=
  sReadStr fuel self data fun v l c => sTail fuel self name v (total0 + (l + c)) ni si

/-- after the first octet: name by index or as a literal string, then the value -/
def sLit (fuel : Nat) (self : Src.Decoder) (data : Bytes) (iname nlen : Int) (ni si : Bool) :
    Py.RS Src.Decoder (Src.Decoder × (Py.Header × Int)) :=
  if (iname ≠ 0) then
    Except.bind (Py.liftR self (Src.decode_integer fuel data nlen)) fun t2 =>
    Except.bind (Py.liftSub self putT (Src.HeaderTable.get_by_index fuel self.f_header_table t2.1)) fun r =>
    Except.bind (Py.liftR r.1 (Py.sliceFrom data (t2.2 + 0))) fun d' =>
    sValue fuel r.1 r.2.1 t2.2 d' ni si
  else
    Except.bind (Py.liftR self (Py.sliceFrom data 1)) fun d1 =>
    sReadStr fuel self d1 fun nm l c =>
      Except.bind (Py.liftR self (Py.sliceFrom d1 (c + l))) fun d' =>
      sValue fuel self nm (c + l + 1) d' ni si

def sLitTop (fuel : Nat) (self : Src.Decoder) (data : Bytes) (si : Bool) : Py.RS Src.Decoder (Src.Decoder × (Py.Header × Int)) :=
  if si = true then
    Except.bind (Py.liftR self (Py.getByte data 0)) fun b0 => sLit fuel self data (Py.band b0 63) 6 false si
  else
    Except.bind (Py.liftR self (Py.getByte data 0)) fun hb => sLit fuel self data (Py.band hb 15) 4 (decide (Py.band hb 16 ≠ 0)) si

theorem decode_literal_struct (fuel : Nat) (self : Src.Decoder) (data : Bytes) (si : Bool) :
    Src.Decoder.decode_literal fuel self data si = sLitTop fuel self data si := by
  unfold Src.Decoder.decode_literal sLitTop sLit sValue sReadStr sTail
  simp only [bind]

/-- the model's last step of a literal: insert when indexing -/
def mTail (st : Impl.DecState) (name value : Impl.PyBuf) (total : Nat) (ni si : Bool) : Impl.Out (Impl.Header × Nat × Impl.Table) :=
  match (if si then st.table.add name value else .ok st.table) with
  | .ok t' => .ok (⟨name, value, ni⟩, total, t')
  | .err e => .err e
  | .esc x => .esc x

def litOk (st : Impl.DecState) (r : Impl.Header × Nat × Impl.Table) : Src.Decoder × (Py.Header × Int) :=
  (absD { st with table := r.2.2 }, (hproj r.1, (r.2.1 : Int)))

theorem sTail_agree (fuel : Nat) (st : Impl.DecState) (name value : Impl.PyBuf) (total : Nat) (ni si : Bool)
    (hf : fuel > st.table.entries.length + 1) :
    Agree (sTail fuel (absD st) name.bytes value.bytes (total : Int) ni si) (mTail st name value total ni si) (litOk st) (absD st) := by
  unfold sTail mTail
  have hadd := add_tie st.table name value fuel hf
  unfold tableRes at hadd
  have habs : (absD st).f_header_table = absT st.table := rfl
  cases si with
  | false =>
    cases ni <;> simp [Agree, litOk, hproj, absD]
  | true =>
    simp only [if_true, habs]
    cases ho : st.table.add name value with
    | ok t' =>
      rw [ho] at hadd
      have h1 := dropS_eq_ok _ _ hadd
      cases ni <;> simp [Agree, litOk, hproj, h1, liftSub_ok, Except.bind, mapOut, putT, absD]
    | err e => exact absurd ho (add_no_err _ _ _ e)
    | esc x =>
      rw [ho] at hadd
      cases hr : Src.HeaderTable.add fuel (absT st.table) name.bytes value.bytes with
      | ok a => rw [hr] at hadd; simp [dropS, mapOut, outToR_esc] at hadd
      | error es =>
        obtain ⟨e, s⟩ := es
        rw [hr] at hadd
        simp only [dropS, mapOut, outToR_esc, Except.error.injEq] at hadd
        cases ni <;> simp [Agree, liftSub_error, Except.bind, dropS, hadd]

theorem slice_ofNat (data : Bytes) (i j : Nat) : Py.slice data (i : Int) (j : Int) = .ok ((data.take j).drop i) := by
  unfold Py.slice
  have : ¬ ((i : Int) < 0 ∨ (j : Int) < 0) := by omega
  simp [this]

theorem sliceFrom_ofNat (data : Bytes) (i : Nat) : Py.sliceFrom data (i : Int) = .ok (data.drop i) := by
  unfold Py.sliceFrom
  have : ¬ ((i : Int) < 0) := by omega
  simp [this]

theorem take_drop_comm (data : Bytes) (c l : Nat) : (data.take (c + l)).drop c = (data.drop c).take l := by
  rw [List.drop_take]
  congr 1
  omega

theorem decodeInt_nil (cap : Option Nat) (N : Nat) : Impl.decodeInt cap [] N = .err .decoding := rfl

/-- reading a string: translated fragment = `Impl.readString`, for any continuation that agrees -/
theorem sReadStr_agree {α β} (fuel : Nat) (st : Impl.DecState) (data : Bytes)
    (k : Bytes → Int → Int → Py.RS Src.Decoder β) (km : Impl.PyBuf → Nat → Impl.Out α) (okv : α → β)
    (hf : fuel > data.length)
    (hk : ∀ (v : Impl.PyBuf) (len c : Nat), Agree (k v.bytes (len : Int) (c : Int)) (km v (c + len)) okv (absD st)) :
    Agree (sReadStr fuel (absD st) data k)
      (match Impl.readString Gen.intCap true data with
       | .ok (value, c2) => km value c2
       | .err e => .err e
       | .esc x => .esc x) okv (absD st) := by
  unfold sReadStr Impl.readString
  have hd := decode_integer_eq fuel data 7 (by omega) hf
  have h7 : ((7 : Nat) : Int) = (7 : Int) := rfl
  rw [h7] at hd
  rw [hd]
  cases hi : Impl.decodeInt Gen.intCap data 7 with
  | err e => simp only [castPair, liftR_outToR_err, Agree, obind_err, ebind_err]
  | esc x => simp only [castPair, liftR_outToR_esc, Agree, obind_esc, ebind_err, dropS]
  | ok r =>
    obtain ⟨len, c⟩ := r
    simp only [castPair, liftR_outToR_ok, ebind_ok]
    have hsum : (c : Int) + (len : Int) = ((c + len : Nat) : Int) := by omega
    rw [hsum, slice_ofNat, liftR_ok, ebind_ok, take_drop_comm]
    simp only [obind_ok]
    by_cases hlen : ((data.drop c).take len).length ≠ len
    · have hlen' : (((data.drop c).take len).length : Int) ≠ (len : Int) := by omega
      simp only [hlen, hlen', if_true, ne_eq, not_false_eq_true, Agree, excOfErr]
    · have hlen' : ¬ ((((data.drop c).take len).length : Int) ≠ (len : Int)) := by omega
      simp only [hlen, hlen', if_false]
      cases data with
      | nil => rw [decodeInt_nil] at hi; cases hi
      | cons b0 rest =>
        have hg : Py.getByte (b0 :: rest) 0 = .ok (b0.toNat : Int) := getByte_drop (b0 :: rest) 0 b0 rest rfl
        rw [hg, liftR_ok, ebind_ok]
        have hband : Py.band (b0.toNat : Int) 128 = ((b0.toNat &&& 128 : Nat) : Int) := band_ofNat _ _
        rw [hband]
        by_cases hh : b0.toNat &&& 0x80 ≠ 0
        · have hh' : ((b0.toNat &&& 128 : Nat) : Int) ≠ 0 := by omega
          simp only [hh, hh', if_true, ne_eq, not_false_eq_true]
          rw [decode_huffman_tie]
          unfold Impl.huffDecodeBuf
          cases hd2 : Impl.huffDecode Gen.huffTable ((List.drop c (b0 :: rest)).take len) with
          | decodingError => simp [resToR, mapRes, Py.liftR, Except.bind, Agree, excOfErr, obind_err]
          | indexError => simp [resToR, mapRes, Py.liftR, Except.bind, Agree, excOfEsc, dropS, obind_esc]
          | ok syms =>
            simp only [resToR, mapRes, liftR_ok, ebind_ok, obind_ok, opure]
            exact hk ⟨syms.map UInt8.ofNat, false⟩ len c
        · have hh' : ¬ (((b0.toNat &&& 128 : Nat) : Int) ≠ 0) := by omega
          simp only [hh, hh', if_false, opure, Bool.not_true]
          exact hk ⟨(List.drop c (b0 :: rest)).take len, false⟩ len c

/-- the model's reading of the value string and its last step -/
def mValue (st : Impl.DecState) (name : Impl.PyBuf) (total0 : Nat) (data : Bytes) (ni si : Bool) :
    Impl.Out (Impl.Header × Nat × Impl.Table) :=
  match Impl.readString Gen.intCap true data with
  | .ok (value, c2) => mTail st name value (total0 + c2) ni si
  | .err e => .err e
  | .esc x => .esc x

theorem sValue_agree (fuel : Nat) (st : Impl.DecState) (name : Impl.PyBuf) (total0 : Nat) (data : Bytes) (ni si : Bool)
    (hf : fuel > data.length) (hf2 : fuel > st.table.entries.length + 1) :
    Agree (sValue fuel (absD st) name.bytes (total0 : Int) data ni si) (mValue st name total0 data ni si) (litOk st) (absD st) := by
  unfold sValue mValue
  apply sReadStr_agree fuel st data _ (fun value c2 => mTail st name value (total0 + c2) ni si) (litOk st) hf
  intro v len c
  have htot : (total0 : Int) + ((len : Int) + (c : Int)) = ((total0 + (c + len) : Nat) : Int) := by omega
  rw [htot]
  exact sTail_agree fuel st name v (total0 + (c + len)) ni si hf2

/-- the model's literal after its first octet (`Impl.decodeLiteral` with the three values derived from that octet given) -/
def mLit (st : Impl.DecState) (data tail : Bytes) (iname nlen : Nat) (ni si : Bool) : Impl.Out (Impl.Header × Nat × Impl.Table) :=
  if iname ≠ 0 then
    match Impl.decodeInt Gen.intCap data nlen with
    | .ok (index, consumed) =>
      match st.table.getByIndex index with
      | .ok e => mValue st e.1 consumed (data.drop consumed) ni si
      | .err e => .err e
      | .esc x => .esc x
    | .err e => .err e
    | .esc x => .esc x
  else
    match Impl.readString Gen.intCap true tail with
    | .ok (s, c) => mValue st s (c + 1) (tail.drop c) ni si
    | .err e => .err e
    | .esc x => .esc x

theorem sLit_agree (fuel : Nat) (st : Impl.DecState) (b0 : UInt8) (tail : Bytes) (iname nlen : Nat) (ni si : Bool)
    (hn : 1 ≤ nlen ∧ nlen ≤ 8) (hf : fuel > (b0 :: tail).length) (hf2 : fuel > st.table.entries.length + 1) :
    Agree (sLit fuel (absD st) (b0 :: tail) (iname : Int) (nlen : Int) ni si) (mLit st (b0 :: tail) tail iname nlen ni si)
      (litOk st) (absD st) := by
  unfold sLit mLit
  by_cases hi : iname ≠ 0
  · have hi' : (iname : Int) ≠ 0 := by omega
    simp only [hi, hi', if_true, ne_eq, not_false_eq_true]
    rw [decode_integer_eq fuel (b0 :: tail) nlen hn hf]
    cases hd : Impl.decodeInt Gen.intCap (b0 :: tail) nlen with
    | err e => simp only [castPair, liftR_outToR_err, Agree, ebind_err]
    | esc x => simp only [castPair, liftR_outToR_esc, Agree, ebind_err, dropS]
    | ok r =>
      obtain ⟨idx, c⟩ := r
      simp only [castPair, liftR_outToR_ok, ebind_ok]
      have habs : (absD st).f_header_table = absT st.table := rfl
      rw [habs, get_by_index_tie]
      cases hg : st.table.getByIndex idx with
      | err e => simp only [mapOut, liftR_outToR_err, liftSub_error, Agree, ebind_err]; rfl
      | esc x => simp only [mapOut, liftR_outToR_esc, liftSub_error, Agree, ebind_err, dropS]
      | ok e =>
        simp only [mapOut, liftR_outToR_ok, liftSub_ok, ebind_ok]
        have h0 : (c : Int) + 0 = (c : Int) := by omega
        have hput : putT (absD st) (absT st.table) = absD st := rfl
        rw [h0, hput, sliceFrom_ofNat, liftR_ok, ebind_ok]
        have hl : (List.drop c (b0 :: tail)).length ≤ (b0 :: tail).length := by simp [List.length_drop]
        exact sValue_agree fuel st e.1 c (List.drop c (b0 :: tail)) ni si (by omega) hf2
  · have hi' : ¬ ((iname : Int) ≠ 0) := by omega
    simp only [hi, hi', if_false]
    have h1 : Py.sliceFrom (b0 :: tail) 1 = .ok tail := sliceFrom_ofNat (b0 :: tail) 1
    rw [h1, liftR_ok, ebind_ok]
    apply sReadStr_agree fuel st tail _ (fun s c => mValue st s (c + 1) (tail.drop c) ni si) (litOk st) (by simp at hf; omega)
    intro v len c
    have hsum : (c : Int) + (len : Int) = ((c + len : Nat) : Int) := by omega
    rw [hsum, sliceFrom_ofNat, liftR_ok, ebind_ok]
    have htot : ((c + len : Nat) : Int) + 1 = ((c + len + 1 : Nat) : Int) := by omega
    rw [htot]
    have hl : (List.drop (c + len) tail).length ≤ tail.length := by simp [List.length_drop]
    exact sValue_agree fuel st v (c + len + 1) (List.drop (c + len) tail) ni si (by simp at hf; omega) hf2

theorem mValue_eq (st : Impl.DecState) (name : Impl.PyBuf) (total0 : Nat) (rest : Bytes) (ni si : Bool) :
    (do let (value, c2) ← Impl.readString Gen.intCap true rest
        let total := total0 + c2
        let t' ← if si then st.table.add name value else pure st.table
        pure ((⟨name, value, ni⟩ : Impl.Header), total, t')) = mValue st name total0 rest ni si := by
  unfold mValue mTail
  cases Impl.readString Gen.intCap true rest with
  | err e => rfl
  | esc x => rfl
  | ok r =>
    obtain ⟨value, c2⟩ := r
    simp only [obind_ok]
    cases si with
    | false => rfl
    | true =>
      simp only [if_true]
      cases st.table.add name value <;> rfl

theorem decodeLiteral_eq (st : Impl.DecState) (b0 : UInt8) (tail : Bytes) (si : Bool) :
    Impl.decodeLiteral Gen.intCap true st.table (b0 :: tail) si =
      if si then mLit st (b0 :: tail) tail (b0.toNat &&& 0x3F) 6 false si
      else mLit st (b0 :: tail) tail (b0.toNat &&& 0x0F) 4 (decide (b0.toNat &&& 0x10 ≠ 0)) si := by
  cases si with
  | true =>
    simp only [Impl.decodeLiteral, if_true, mLit]
    by_cases hi : b0.toNat &&& 0x3F ≠ 0
    · simp only [hi, if_true, ne_eq, not_false_eq_true]
      cases hd : Impl.decodeInt Gen.intCap (b0 :: tail) 6 with
      | err e => rfl
      | esc x => rfl
      | ok r =>
        obtain ⟨idx, c⟩ := r
        simp only [obind_ok]
        cases hg : st.table.getByIndex idx with
        | err e => rfl
        | esc x => rfl
        | ok e => simp only [obind_ok, opure]; exact mValue_eq st e.1 c _ false true
    · simp only [hi, if_false]
      cases hr : Impl.readString Gen.intCap true tail with
      | err e => rfl
      | esc x => rfl
      | ok r =>
        obtain ⟨s, c⟩ := r
        simp only [obind_ok, opure]
        exact mValue_eq st s (c + 1) _ false true
  | false =>
    simp only [Impl.decodeLiteral, Bool.false_eq_true, if_false, mLit]
    by_cases hi : b0.toNat &&& 0x0F ≠ 0
    · simp only [hi, if_true, ne_eq, not_false_eq_true]
      cases hd : Impl.decodeInt Gen.intCap (b0 :: tail) 4 with
      | err e => rfl
      | esc x => rfl
      | ok r =>
        obtain ⟨idx, c⟩ := r
        simp only [obind_ok]
        cases hg : st.table.getByIndex idx with
        | err e => rfl
        | esc x => rfl
        | ok e => simp only [obind_ok, opure]; exact mValue_eq st e.1 c _ _ false
    · simp only [hi, if_false]
      cases hr : Impl.readString Gen.intCap true tail with
      | err e => rfl
      | esc x => rfl
      | ok r =>
        obtain ⟨s, c⟩ := r
        simp only [obind_ok, opure]
        exact mValue_eq st s (c + 1) _ _ false

/-- **`_decode_literal`**: translated method = `Impl.decodeLiteral` (name by index or as a string, value string, Huffman or
plain, never-indexed flag, insertion when indexing; every truncation, bad index and Huffman error with its class, and the
object untouched when they are raised) -/
theorem decode_literal_agree (fuel : Nat) (st : Impl.DecState) (data : Bytes) (si : Bool)
    (hf : fuel > data.length) (hf2 : fuel > st.table.entries.length + 1) :
    Agree (Src.Decoder.decode_literal fuel (absD st) data si) (Impl.decodeLiteral Gen.intCap true st.table data si)
      (litOk st) (absD st) := by
  rw [decode_literal_struct]
  unfold sLitTop
  cases data with
  | nil =>
    have hg : Py.getByte ([] : Bytes) 0 = .error .indexError := getByte_drop_nil [] 0 rfl
    cases si <;> simp [hg, Py.liftR, Except.bind, Impl.decodeLiteral, Agree, dropS, excOfEsc]
  | cons b0 tail =>
    have hg : Py.getByte (b0 :: tail) 0 = .ok (b0.toNat : Int) := getByte_drop (b0 :: tail) 0 b0 tail rfl
    rw [decodeLiteral_eq]
    cases si with
    | true =>
      simp only [if_true, hg, liftR_ok, ebind_ok]
      have hb : Py.band (b0.toNat : Int) 63 = ((b0.toNat &&& 0x3F : Nat) : Int) := band_ofNat _ _
      rw [hb]
      exact sLit_agree fuel st b0 tail (b0.toNat &&& 0x3F) 6 false true (by omega) hf hf2
    | false =>
      simp only [Bool.false_eq_true, if_false, hg, liftR_ok, ebind_ok]
      have hb : Py.band (b0.toNat : Int) 15 = ((b0.toNat &&& 0x0F : Nat) : Int) := band_ofNat _ _
      have hb2 : Py.band (b0.toNat : Int) 16 = ((b0.toNat &&& 0x10 : Nat) : Int) := band_ofNat _ _
      rw [hb, hb2]
      have hdec : (decide (((b0.toNat &&& 0x10 : Nat) : Int) ≠ 0)) = (decide (b0.toNat &&& 0x10 ≠ 0)) := by
        by_cases h : b0.toNat &&& 0x10 = 0
        · simp [h]
        · have : ((b0.toNat &&& 0x10 : Nat) : Int) ≠ 0 := by omega
          simp [h, this]
      rw [hdec]
      exact sLit_agree fuel st b0 tail (b0.toNat &&& 0x0F) 4 _ false (by omega) hf hf2

/-! ### `decode`: the loop and what follows it -/

/-- after a field was decoded: account for its size, refuse the list above the limit, otherwise go on -/
def sAfter (F : Nat) (self : Src.Decoder) (D Dm : Bytes) (headers : List Py.Header) (len infl i : Int) (header : Py.Header) (consumed : Int) :
    Py.RS Src.Decoder (Src.Decoder × List Py.Header × Int × Int) :=
  Except.bind (Py.liftR self (Src.table_entry_size F header.1 header.2.1)) fun t =>
    if (infl + t > self.f_max_header_list_size) then
      Except.bind (Py.liftR self (Py.fmtInt self.f_max_header_list_size)) fun _ => .error (.oversizedHeaderListError, self)
    else Src.Decoder.decode.while1 F self D Dm (headers ++ [header]) len (infl + t) (i + consumed)

/-- one iteration of the translated `while current_index < data_len` loop -/
theorem while1_succ (F : Nat) (self : Src.Decoder) (D Dm : Bytes) (headers : List Py.Header) (len infl i : Int) :
    Src.Decoder.decode.while1 (F + 1) self D Dm headers len infl i =
      if (i < len) then
        Except.bind (Py.liftR self (Py.getByte D i)) fun cur =>
          if (decide (Py.band cur 128 ≠ 0) = true) then
            Except.bind (Py.liftR self (Py.sliceFrom Dm i)) fun d =>
            Except.bind (Src.Decoder.decode_indexed F self d) fun r => sAfter F r.1 D Dm headers len infl i r.2.1 r.2.2
          else if (decide (Py.band cur 64 ≠ 0) = true) then
            Except.bind (Py.liftR self (Py.sliceFrom Dm i)) fun d =>
            Except.bind (Src.Decoder.decode_literal_index F self d) fun r => sAfter F r.1 D Dm headers len infl i r.2.1 r.2.2
          else if (decide (Py.band cur 32 ≠ 0) = true) then
            (if (headers ≠ []) then .error (.hpackDecodingError, self)
             else
              Except.bind (Py.liftR self (Py.sliceFrom Dm i)) fun d =>
              Except.bind (Src.Decoder.update_encoding_context F self d) fun r =>
                Src.Decoder.decode.while1 F r.1 D Dm headers len infl (i + r.2))
          else
            Except.bind (Py.liftR self (Py.sliceFrom Dm i)) fun d =>
            Except.bind (Src.Decoder.decode_literal_no_index F self d) fun r => sAfter F r.1 D Dm headers len infl i r.2.1 r.2.2
      else .ok (self, headers, infl, i) := by
  rw [Src.Decoder.decode.while1]
  unfold sAfter
  simp only [bind]

theorem decode_literal_index_eq (F : Nat) (self : Src.Decoder) (d : Bytes) :
    Src.Decoder.decode_literal_index F self d = Src.Decoder.decode_literal F self d true := by
  unfold Src.Decoder.decode_literal_index
  cases Src.Decoder.decode_literal F self d true with
  | ok r => rfl
  | error e => rfl

theorem decode_literal_no_index_eq (F : Nat) (self : Src.Decoder) (d : Bytes) :
    Src.Decoder.decode_literal_no_index F self d = Src.Decoder.decode_literal F self d false := by
  unfold Src.Decoder.decode_literal_no_index
  cases Src.Decoder.decode_literal F self d false with
  | ok r => rfl
  | error e => rfl

/-- what follows the loop in `decode`: the end-of-block size check, then the conversion of the header list -/
def sFinish (G : Nat) (raw : Bool) : Src.Decoder × List Py.Header × Int × Int → Py.RS Src.Decoder (Src.Decoder × List Py.Header)
  | (self, headers, _, _) =>
    Except.bind (Src.Decoder.assert_valid_table_size G self) fun t13_r =>
      Py.tryExceptS
        (Except.bind (Py.liftR t13_r.1 (Py.listMapM (fun h => Except.bind (Src._unicode_if_needed G h raw) fun t14 => .ok t14) headers)) fun t15 =>
          .ok (t13_r.1, t15))
        .unicodeDecodeError (fun self => .error (.hpackDecodingError, self))

theorem decode_struct (G : Nat) (self : Src.Decoder) (data : Bytes) (raw : Bool) :
    Src.Decoder.decode G self data raw =
      Except.bind (Src.Decoder.decode.while1 G self data data [] (data.length : Int) 0 0) (sFinish G raw) := by
  unfold Src.Decoder.decode sFinish
  simp only [bind]

/-- the comprehension `[_unicode_if_needed(h, raw) for h in headers]` -/
theorem unicode_list (G : Nat) (raw : Bool) (hs : List Impl.Header) :
    Py.listMapM (fun h => Except.bind (Src._unicode_if_needed G h raw) fun t14 => .ok t14) (hs.map hproj) =
      if raw then .ok (hs.map hproj)
      else if hs.all (fun h => Impl.validUtf8 h.name.bytes && Impl.validUtf8 h.value.bytes) then .ok (hs.map hproj)
      else .error .unicodeDecodeError := by
  induction hs with
  | nil => cases raw <;> rfl
  | cons h t ih =>
    simp only [List.map_cons, Py.listMapM, ih]
    cases raw with
    | true => simp [Src._unicode_if_needed, hproj, Except.bind, bind]
    | false =>
      simp only [Src._unicode_if_needed, hproj, Bool.false_eq_true, not_false_eq_true, if_true, if_false, bind, Except.bind, Py.utf8Decode, List.all_cons]
      by_cases h1 : Impl.validUtf8 h.name.bytes = true
      · by_cases h2 : Impl.validUtf8 h.value.bytes = true
        · simp only [h1, h2, if_true, Bool.and_self, Bool.true_and]
          by_cases ha : (t.all fun h => Impl.validUtf8 h.name.bytes && Impl.validUtf8 h.value.bytes) = true
          · simp [ha]
          · simp [ha]
        · simp [h1, h2]
      · simp [h1]

/-! growth of the table during a block: at most one entry per field -/
theorem shrinkLoop_length (m : Nat) : ∀ (rev : List Impl.Entry) (cur : Int) (rev' : List Impl.Entry) (cur' : Int),
    Impl.shrinkLoop m rev cur = .ok (rev', cur') → rev'.length ≤ rev.length := by
  intro rev
  induction rev with
  | nil =>
    intro cur rev' cur' h
    unfold Impl.shrinkLoop at h
    split at h
    · cases h
    · cases h; simp
  | cons e r ih =>
    intro cur rev' cur' h
    unfold Impl.shrinkLoop at h
    split at h
    · have := ih _ _ _ h; simp; omega
    · cases h; simp

theorem shrink_length (t t' : Impl.Table) (h : t.shrink = .ok t') : t'.entries.length ≤ t.entries.length := by
  unfold Impl.Table.shrink at h
  split at h
  · rename_i rev cur hs
    cases h
    have := shrinkLoop_length _ _ _ _ _ hs
    simpa using this
  · cases h
  · cases h

theorem add_length (t t' : Impl.Table) (n v : Impl.PyBuf) (h : t.add n v = .ok t') : t'.entries.length ≤ t.entries.length + 1 := by
  unfold Impl.Table.add at h
  simp only at h
  split at h
  · cases h; simp
  · have := shrink_length _ _ h; simpa using this

theorem setMaxsize_length (t t' : Impl.Table) (m : Nat) (h : t.setMaxsize m = .ok t') : t'.entries.length ≤ t.entries.length := by
  unfold Impl.Table.setMaxsize at h
  simp only at h
  split at h
  · cases h; simp
  · split at h
    · have := shrink_length _ _ h; simpa using this
    · cases h; simp

theorem mTail_length (st : Impl.DecState) (name value : Impl.PyBuf) (total : Nat) (ni si : Bool) (r : Impl.Header × Nat × Impl.Table)
    (h : mTail st name value total ni si = .ok r) : r.2.2.entries.length ≤ st.table.entries.length + 1 := by
  unfold mTail at h
  cases si with
  | false => simp at h; cases h; simp
  | true =>
    simp only [if_true] at h
    cases ha : st.table.add name value with
    | ok t' => rw [ha] at h; cases h; exact add_length _ _ _ _ ha
    | err e => rw [ha] at h; cases h
    | esc x => rw [ha] at h; cases h

theorem mValue_length (st : Impl.DecState) (name : Impl.PyBuf) (total0 : Nat) (data : Bytes) (ni si : Bool) (r : Impl.Header × Nat × Impl.Table)
    (h : mValue st name total0 data ni si = .ok r) : r.2.2.entries.length ≤ st.table.entries.length + 1 := by
  unfold mValue at h
  cases hr : Impl.readString Gen.intCap true data with
  | ok p => rw [hr] at h; exact mTail_length _ _ _ _ _ _ _ h
  | err e => rw [hr] at h; cases h
  | esc x => rw [hr] at h; cases h

theorem mLit_length (st : Impl.DecState) (data tail : Bytes) (iname nlen : Nat) (ni si : Bool) (r : Impl.Header × Nat × Impl.Table)
    (h : mLit st data tail iname nlen ni si = .ok r) : r.2.2.entries.length ≤ st.table.entries.length + 1 := by
  unfold mLit at h
  split at h
  · cases hd : Impl.decodeInt Gen.intCap data nlen with
    | ok p =>
      rw [hd] at h
      simp only at h
      cases hg : st.table.getByIndex p.1 with
      | ok e => rw [hg] at h; exact mValue_length _ _ _ _ _ _ _ h
      | err e => rw [hg] at h; cases h
      | esc x => rw [hg] at h; cases h
    | err e => rw [hd] at h; cases h
    | esc x => rw [hd] at h; cases h
  · cases hr : Impl.readString Gen.intCap true tail with
    | ok p => rw [hr] at h; exact mValue_length _ _ _ _ _ _ _ h
    | err e => rw [hr] at h; cases h
    | esc x => rw [hr] at h; cases h

theorem decodeLiteral_length (st : Impl.DecState) (data : Bytes) (si : Bool) (r : Impl.Header × Nat × Impl.Table)
    (h : Impl.decodeLiteral Gen.intCap true st.table data si = .ok r) : r.2.2.entries.length ≤ st.table.entries.length + 1 := by
  cases data with
  | nil => simp [Impl.decodeLiteral] at h
  | cons b0 tail =>
    rw [decodeLiteral_eq] at h
    cases si with
    | true => simp only [if_true] at h; exact mLit_length _ _ _ _ _ _ _ _ h
    | false => simp only [Bool.false_eq_true, if_false] at h; exact mLit_length _ _ _ _ _ _ _ _ h

/-- the three branches are what `Impl.decodeField` dispatches to -/
theorem decodeField_is_dispatch (st : Impl.DecState) (b0 : UInt8) (rest : Bytes) (seen : Bool) :
    Impl.decodeField Gen.intCap true st (b0 :: rest) seen =
      if b0.toNat &&& 0x80 ≠ 0 then
        (match mIndexed st (b0 :: rest) with
         | .ok (h, c) => .ok (some h, c, st) | .err e => .err e | .esc x => .esc x)
      else if b0.toNat &&& 0x40 ≠ 0 ∨ b0.toNat &&& 0x20 = 0 then
        (match Impl.decodeLiteral Gen.intCap true st.table (b0 :: rest) (decide (b0.toNat &&& 0x40 ≠ 0)) with
         | .ok (h, c, t') => .ok (some h, c, { st with table := t' }) | .err e => .err e | .esc x => .esc x)
      else if seen then .err .decoding
      else
        (match mSizeUpdate st (b0 :: rest) with
         | .ok (c, st') => .ok (none, c, st') | .err e => .err e | .esc x => .esc x) := by
  unfold Impl.decodeField mIndexed mSizeUpdate
  simp only []
  split
  · cases Impl.decodeInt Gen.intCap (b0 :: rest) 7 with
    | err e => rfl
    | esc x => rfl
    | ok r =>
      obtain ⟨i, c⟩ := r
      simp only [obind_ok]
      cases st.table.getByIndex i <;> rfl
  · split
    · cases Impl.decodeLiteral Gen.intCap true st.table (b0 :: rest) (decide (b0.toNat &&& 0x40 ≠ 0)) with
      | err e => rfl
      | esc x => rfl
      | ok r => obtain ⟨h, c, t'⟩ := r; rfl
    · split
      · rfl
      · cases Impl.decodeInt Gen.intCap (b0 :: rest) 5 with
        | err e => rfl
        | esc x => rfl
        | ok r =>
          obtain ⟨n, c⟩ := r
          simp only [obind_ok]
          split
          · rfl
          · cases st.table.setMaxsize n <;> rfl


/-! ### the whole call -/

/-- the model's run from a loop state: `decodeLoop`, then the conversion of the result -/
def mRun (n : Nat) (st : Impl.DecState) (suffix : Bytes) (hsM : List Impl.Header) (infl : Nat) (raw : Bool) :
    Impl.Out (List Impl.Header) × Impl.DecState :=
  match Impl.decodeLoop Gen.intCap true n st suffix hsM infl with
  | (.ok hs, st') => (Impl.finishHeaders raw hs, st')
  | (.err e, st') => (.err e, st')
  | (.esc x, st') => (.esc x, st')

/-- agreement for a whole call: the list and the decoder afterwards; a documented error and the decoder afterwards; an escape -/
def AgreeRun (r : Py.RS Src.Decoder (Src.Decoder × List Py.Header)) (o : Impl.Out (List Impl.Header) × Impl.DecState) : Prop :=
  match o with
  | (.ok hs, st') => r = .ok (absD st', hs.map hproj)
  | (.err e, st') => r = .error (excOfErr e, absD st')
  | (.esc x, _) => dropS r = .error (excOfEsc x)

theorem hproj_finish (hs : List Impl.Header) :
    (hs.map fun h => ({ name := ⟨h.name.bytes, false⟩, value := ⟨h.value.bytes, false⟩, never := h.never } : Impl.Header)).map hproj = hs.map hproj := by
  induction hs with
  | nil => rfl
  | cons h t ih => simp [hproj, ih]

theorem sFinish_agree (G : Nat) (raw : Bool) (st : Impl.DecState) (hsM : List Impl.Header) (infl i : Int) :
    AgreeRun (sFinish G raw (absD st, hsM.reverse.map hproj, infl, i))
      (if st.table.maxsize > st.allowed then (.err .invalidTableSize, st) else (Impl.finishHeaders raw hsM.reverse, st)) := by
  unfold sFinish
  simp only [assert_valid_table_size_eq]
  by_cases h : st.table.maxsize > st.allowed
  · simp only [h, if_true, ebind_err, AgreeRun, excOfErr]
  · simp only [h, if_false, ebind_ok, unicode_list]
    unfold Impl.finishHeaders
    cases raw with
    | true =>
      simp [AgreeRun, Py.tryExceptS, Except.bind]
      intro a _; rfl
    | false =>
      simp only [Bool.false_eq_true, if_false]
      by_cases ha : (hsM.reverse.all fun h => Impl.validUtf8 h.name.bytes && Impl.validUtf8 h.value.bytes) = true
      · simp [ha, AgreeRun, Py.tryExceptS, Except.bind]
        intro a _; rfl
      · simp [ha, AgreeRun, Py.tryExceptS, Except.bind, excOfErr]

theorem ebind_ite {ε α β} (c : Prop) [Decidable c] (a b : Except ε α) (k : α → Except ε β) :
    Except.bind (if c then a else b) k = if c then Except.bind a k else Except.bind b k := by
  split <;> rfl
theorem ebind_assoc {ε α β γ} (x : Except ε α) (f : α → Except ε β) (k : β → Except ε γ) :
    Except.bind (Except.bind x f) k = Except.bind x fun a => Except.bind (f a) k := by
  cases x <;> rfl

theorem fmtInt_small (n : Nat) (h : n < 10 ^ 4300) : Py.fmtInt (n : Int) = .ok () := by
  unfold Py.fmtInt
  have : ¬ ((n : Int).natAbs ≥ 10 ^ Py.maxStrDigits) := by
    simp only [Int.natAbs_natCast, Py.maxStrDigits]; omega
  rw [if_neg this]

theorem decodeLoop_succ_nil (n : Nat) (st : Impl.DecState) (hsM : List Impl.Header) (infl : Nat) :
    Impl.decodeLoop Gen.intCap true (n + 1) st [] hsM infl =
      if st.table.maxsize > st.allowed then (.err .invalidTableSize, st) else (.ok hsM.reverse, st) := by
  rw [Impl.decodeLoop]

theorem decodeLoop_succ_cons (n : Nat) (st : Impl.DecState) (b0 : UInt8) (rest : Bytes) (hsM : List Impl.Header) (infl : Nat) :
    Impl.decodeLoop Gen.intCap true (n + 1) st (b0 :: rest) hsM infl =
      match Impl.decodeField Gen.intCap true st (b0 :: rest) (!hsM.isEmpty) with
      | .ok (some h, consumed, st') =>
        if infl + Impl.entrySize (h.name, h.value) > st'.listLimit then (.err .oversized, st')
        else Impl.decodeLoop Gen.intCap true n st' ((b0 :: rest).drop consumed) (h :: hsM) (infl + Impl.entrySize (h.name, h.value))
      | .ok (none, consumed, st') => Impl.decodeLoop Gen.intCap true n st' ((b0 :: rest).drop consumed) hsM infl
      | .err e => (.err e, st)
      | .esc x => (.esc x, st) := by
  rw [Impl.decodeLoop]
  rfl

theorem mRun_nil (n : Nat) (st : Impl.DecState) (hsM : List Impl.Header) (infl : Nat) (raw : Bool) :
    mRun (n + 1) st [] hsM infl raw =
      if st.table.maxsize > st.allowed then (.err .invalidTableSize, st) else (Impl.finishHeaders raw hsM.reverse, st) := by
  unfold mRun
  rw [decodeLoop_succ_nil]
  by_cases h : st.table.maxsize > st.allowed
  · simp [h]
  · simp [h]

/-- the step shared by the three field-producing branches -/
theorem after_field (D : Bytes) (raw : Bool) (G n F : Nat) (st' : Impl.DecState) (hsM : List Impl.Header) (infl i c : Nat) (h : Impl.Header)
    (hlim : st'.listLimit < 10 ^ 4300)
    (ih : AgreeRun (Except.bind (Src.Decoder.decode.while1 F (absD st') D D ((h :: hsM).reverse.map hproj) (D.length : Int)
            ((infl + Impl.entrySize (h.name, h.value) : Nat) : Int) ((i + c : Nat) : Int)) (sFinish G raw))
          (mRun n st' (D.drop (i + c)) (h :: hsM) (infl + Impl.entrySize (h.name, h.value)) raw)) :
    AgreeRun (Except.bind (sAfter F (absD st') D D (hsM.reverse.map hproj) (D.length : Int) (infl : Int) (i : Int) (hproj h) (c : Int)) (sFinish G raw))
      (if infl + Impl.entrySize (h.name, h.value) > st'.listLimit then (.err .oversized, st')
       else mRun n st' (D.drop (i + c)) (h :: hsM) (infl + Impl.entrySize (h.name, h.value)) raw) := by
  unfold sAfter
  have hsz : Src.table_entry_size F (hproj h).1 (hproj h).2.1 = .ok ((Impl.entrySize (h.name, h.value) : Nat) : Int) := by
    rw [table_entry_size_tie]; rfl
  rw [hsz, liftR_ok, ebind_ok]
  have hadd : (infl : Int) + ((Impl.entrySize (h.name, h.value) : Nat) : Int) = ((infl + Impl.entrySize (h.name, h.value) : Nat) : Int) := by omega
  rw [hadd]
  by_cases hov : infl + Impl.entrySize (h.name, h.value) > st'.listLimit
  · have hov' : ((infl + Impl.entrySize (h.name, h.value) : Nat) : Int) > (absD st').f_max_header_list_size := by
      simp only [absD]; omega
    simp only [hov, hov', if_true]
    have hf : Py.fmtInt (absD st').f_max_header_list_size = .ok () := fmtInt_small st'.listLimit hlim
    rw [hf, liftR_ok, ebind_ok, ebind_err]
    simp only [AgreeRun, excOfErr]
  · have hov' : ¬ (((infl + Impl.entrySize (h.name, h.value) : Nat) : Int) > (absD st').f_max_header_list_size) := by
      simp only [absD]; omega
    simp only [hov, hov', if_false]
    have hi : (i : Int) + (c : Int) = ((i + c : Nat) : Int) := by omega
    have hl : hsM.reverse.map hproj ++ [hproj h] = (h :: hsM).reverse.map hproj := by simp
    rw [hi, hl]
    exact ih

theorem mRun_cons (n : Nat) (st : Impl.DecState) (b0 : UInt8) (rest : Bytes) (hsM : List Impl.Header) (infl : Nat) (raw : Bool) :
    mRun (n + 1) st (b0 :: rest) hsM infl raw =
      match Impl.decodeField Gen.intCap true st (b0 :: rest) (!hsM.isEmpty) with
      | .ok (some h, consumed, st') =>
        if infl + Impl.entrySize (h.name, h.value) > st'.listLimit then (.err .oversized, st')
        else mRun n st' ((b0 :: rest).drop consumed) (h :: hsM) (infl + Impl.entrySize (h.name, h.value)) raw
      | .ok (none, consumed, st') => mRun n st' ((b0 :: rest).drop consumed) hsM infl raw
      | .err e => (.err e, st)
      | .esc x => (.esc x, st) := by
  unfold mRun
  rw [decodeLoop_succ_cons]
  cases hf : Impl.decodeField Gen.intCap true st (b0 :: rest) (!hsM.isEmpty) with
  | err e => rfl
  | esc x => rfl
  | ok r =>
    obtain ⟨ho, c, st'⟩ := r
    cases ho with
    | none => rfl
    | some h =>
      simp only []
      by_cases hov : infl + Impl.entrySize (h.name, h.value) > st'.listLimit
      · simp [hov]
      · simp [hov]

theorem field_safe (st : Impl.DecState) (hinv : Impl.Inv st.table) (b0 : UInt8) (rest : Bytes) (seen : Bool) :
    ∀ h k st', Impl.decodeField Gen.intCap true st (b0 :: rest) seen = .ok (h, k, st') →
      1 ≤ k ∧ k ≤ (b0 :: rest).length ∧ Impl.Inv st'.table ∧ st'.allowed = st.allowed ∧ st'.listLimit = st.listLimit := by
  rw [Props.cap_eq]
  exact (Impl.decodeField_safe Props.capN Props.capOK st hinv (b0 :: rest) (by simp) seen).2

theorem band_flag (b : Nat) (m : Nat) : (decide (Py.band (b : Int) (m : Int) ≠ 0) = true) ↔ (b &&& m ≠ 0) := by
  have : Py.band (b : Int) (m : Int) = ((b &&& m : Nat) : Int) := band_ofNat b m
  rw [this]
  simp only [decide_eq_true_eq]
  omega

/-- **The loop and what follows it**: from every loop state, the translated `while` loop followed by the end-of-block check
and the conversion of the list agrees with `Impl.decodeLoop` followed by `finishHeaders` -/
theorem run_agree (D : Bytes) (raw : Bool) (G : Nat) :
    ∀ (n : Nat) (st : Impl.DecState) (i : Nat) (hsM : List Impl.Header) (infl F : Nat),
      Impl.Inv st.table → st.listLimit < 10 ^ 4300 → i ≤ D.length → n > (D.drop i).length →
      F ≥ 2 * n + D.length + st.table.entries.length + 2 →
      AgreeRun (Except.bind (Src.Decoder.decode.while1 F (absD st) D D (hsM.reverse.map hproj) (D.length : Int) (infl : Int) (i : Int)) (sFinish G raw))
        (mRun n st (D.drop i) hsM infl raw) := by
  intro n
  induction n with
  | zero => intro st i hsM infl F _ _ _ hn _; omega
  | succ n ih =>
    intro st i hsM infl F hinv hlim hi hn hF
    obtain ⟨F', rfl⟩ : ∃ F', F = F' + 1 := ⟨F - 1, by omega⟩
    rw [while1_succ]
    cases hd : D.drop i with
    | nil =>
      have hlen : D.length ≤ i := by
        have := congrArg List.length hd
        simp only [List.length_drop, List.length_nil] at this
        omega
      have hi' : ¬ ((i : Int) < (D.length : Int)) := by omega
      simp only [hi', if_false, ebind_ok]
      rw [mRun_nil]
      exact sFinish_agree G raw st hsM infl i
    | cons b0 rest =>
      have hlen : (D.drop i).length = D.length - i := List.length_drop
      have hlt : i < D.length := by
        rw [hd] at hlen; simp at hlen; omega
      have hi' : (i : Int) < (D.length : Int) := by omega
      have hdl : (b0 :: rest).length = D.length - i := by rw [← hd]; exact hlen
      simp only [hi', if_true, getByte_drop D i b0 rest hd, liftR_ok, ebind_ok, sliceFrom_ofNat, hd]
      rw [mRun_cons, decodeField_is_dispatch]
      have hsafe := field_safe st hinv b0 rest (!hsM.isEmpty)
      rw [decodeField_is_dispatch] at hsafe
      have hdrop : ∀ c, List.drop c (b0 :: rest) = D.drop (i + c) := by
        intro c; rw [← hd, List.drop_drop]
      have h128 := band_flag b0.toNat 128
      have h64 := band_flag b0.toNat 64
      have h32 := band_flag b0.toNat 32
      by_cases hx : b0.toNat &&& 0x80 ≠ 0
      · -- indexed field
        have hx' : decide (Py.band (b0.toNat : Int) 128 ≠ 0) = true := h128.mpr hx
        simp only [hx, hx', if_true, ne_eq, not_false_eq_true] at hsafe ⊢
        have hag := decode_indexed_agree F' st (b0 :: rest) (by omega)
        cases hm : mIndexed st (b0 :: rest) with
        | err e => rw [hm] at hag; simp only [Agree] at hag; simp only [hag, ebind_err, AgreeRun]
        | esc x =>
          rw [hm] at hag; simp only [Agree] at hag
          cases hr : Src.Decoder.decode_indexed F' (absD st) (b0 :: rest) with
          | ok a => rw [hr] at hag; simp [dropS] at hag
          | error es => obtain ⟨e, s⟩ := es; rw [hr] at hag; simp only [dropS, Except.error.injEq] at hag; simp [AgreeRun, ebind_err, dropS, hag]
        | ok r =>
          obtain ⟨h, c⟩ := r
          rw [hm] at hag hsafe; simp only [Agree] at hag
          obtain ⟨hc1, hc2, hinv', _, hl'⟩ := hsafe (some h) c st rfl
          simp only [hag, ebind_ok]
          rw [hdrop c]
          apply after_field D raw G n F' st hsM infl i c h hlim
          exact ih st (i + c) (h :: hsM) _ F' hinv hlim (by omega) (by simp only [List.length_drop]; omega) (by omega)
      · have hx' : ¬ (decide (Py.band (b0.toNat : Int) 128 ≠ 0) = true) := fun hh => hx (h128.mp hh)
        simp only [hx, hx', if_false, Bool.false_eq_true] at hsafe ⊢
        by_cases hy : b0.toNat &&& 0x40 ≠ 0
        · -- literal with incremental indexing
          have hy' : decide (Py.band (b0.toNat : Int) 64 ≠ 0) = true := h64.mpr hy
          have hor : b0.toNat &&& 0x40 ≠ 0 ∨ b0.toNat &&& 0x20 = 0 := Or.inl hy
          have hsi : decide (b0.toNat &&& 0x40 ≠ 0) = true := by simp [hy]
          simp only [hy', hor, if_true, hsi, decode_literal_index_eq] at hsafe ⊢
          have hag := decode_literal_agree F' st (b0 :: rest) true (by omega) (by omega)
          cases hm : Impl.decodeLiteral Gen.intCap true st.table (b0 :: rest) true with
          | err e => rw [hm] at hag; simp only [Agree] at hag; simp only [hag, ebind_err, AgreeRun]
          | esc x =>
            rw [hm] at hag; simp only [Agree] at hag
            cases hr : Src.Decoder.decode_literal F' (absD st) (b0 :: rest) true with
            | ok a => rw [hr] at hag; simp [dropS] at hag
            | error es => obtain ⟨e, s⟩ := es; rw [hr] at hag; simp only [dropS, Except.error.injEq] at hag; simp [AgreeRun, ebind_err, dropS, hag]
          | ok r =>
            obtain ⟨h, c, t'⟩ := r
            have hgrow := decodeLiteral_length st (b0 :: rest) true _ hm
            rw [hm] at hag hsafe; simp only [Agree, litOk] at hag
            obtain ⟨hc1, hc2, hinv', _, hl'⟩ := hsafe (some h) c { st with table := t' } rfl
            simp only [hag, ebind_ok]
            rw [hdrop c]
            apply after_field D raw G n F' { st with table := t' } hsM infl i c h hlim
            exact ih { st with table := t' } (i + c) (h :: hsM) _ F' hinv' hlim (by omega) (by simp only [List.length_drop]; omega)
              (by simp only at hgrow ⊢; omega)
        · have hy' : ¬ (decide (Py.band (b0.toNat : Int) 64 ≠ 0) = true) := fun hh => hy (h64.mp hh)
          simp only [hy', hy, if_false, Bool.false_eq_true] at hsafe ⊢
          by_cases hz : b0.toNat &&& 0x20 ≠ 0
          · -- dynamic table size update
            have hz' : decide (Py.band (b0.toNat : Int) 32 ≠ 0) = true := h32.mpr hz
            have hz2 : ¬ (b0.toNat &&& 32 = 0) := hz
            simp only [hz', hz2, or_self, if_true, if_false] at hsafe ⊢
            by_cases hseen : hsM.isEmpty = true
            · have hnil : hsM = [] := List.isEmpty_iff.mp hseen
              subst hnil
              simp only [List.reverse_nil, List.map_nil, ne_eq, not_true_eq_false, if_false, List.isEmpty_nil, Bool.not_true, Bool.false_eq_true] at hsafe ⊢
              have hag := update_encoding_context_agree F' st (b0 :: rest) (by omega) (by omega)
              cases hm : mSizeUpdate st (b0 :: rest) with
              | err e => rw [hm] at hag; simp only [Agree] at hag; simp only [hag, ebind_err, AgreeRun]
              | esc x =>
                rw [hm] at hag; simp only [Agree] at hag
                cases hr : Src.Decoder.update_encoding_context F' (absD st) (b0 :: rest) with
                | ok a => rw [hr] at hag; simp [dropS] at hag
                | error es => obtain ⟨e, s⟩ := es; rw [hr] at hag; simp only [dropS, Except.error.injEq] at hag; simp [AgreeRun, ebind_err, dropS, hag]
              | ok r =>
                obtain ⟨c, st'⟩ := r
                rw [hm] at hag hsafe; simp only [Agree] at hag
                obtain ⟨hc1, hc2, hinv', _, hl'⟩ := hsafe none c st' rfl
                have hgrow : st'.table.entries.length ≤ st.table.entries.length := by
                  unfold mSizeUpdate at hm
                  cases hdi : Impl.decodeInt Gen.intCap (b0 :: rest) 5 with
                  | err e => rw [hdi] at hm; cases hm
                  | esc x => rw [hdi] at hm; cases hm
                  | ok p =>
                    rw [hdi] at hm
                    simp only at hm
                    split at hm
                    · cases hm
                    · cases hsm : st.table.setMaxsize p.1 with
                      | ok t' => rw [hsm] at hm; cases hm; exact setMaxsize_length _ _ _ hsm
                      | err e => rw [hsm] at hm; cases hm
                      | esc x => rw [hsm] at hm; cases hm
                simp only [hag, ebind_ok]
                rw [hdrop c]
                have hi2 : (i : Int) + (c : Int) = ((i + c : Nat) : Int) := by omega
                rw [hi2]
                have := ih st' (i + c) [] infl F' hinv' (by omega) (by omega) (by simp only [List.length_drop]; omega) (by omega)
                simpa using this
            · have hne : hsM.reverse.map hproj ≠ [] := by
                intro hh
                have : hsM = [] := by simpa using hh
                exact hseen (by simp [this])
              have hs2 : (!hsM.isEmpty) = true := by simpa using hseen
              simp only [hne, ne_eq, not_false_eq_true, if_true, hs2, ebind_err, AgreeRun, excOfErr]
          · -- literal without indexing / never indexed
            have hz' : ¬ (decide (Py.band (b0.toNat : Int) 32 ≠ 0) = true) := fun hh => hz (h32.mp hh)
            have hz0 : b0.toNat &&& 0x20 = 0 := by omega
            have hz3 : b0.toNat &&& 32 = 0 := hz0
            have hdF : (decide False) = false := rfl
            simp only [hz', hz3, or_true, if_true, if_false, hdF, Bool.false_eq_true, decode_literal_no_index_eq] at hsafe ⊢
            have hag := decode_literal_agree F' st (b0 :: rest) false (by omega) (by omega)
            cases hm : Impl.decodeLiteral Gen.intCap true st.table (b0 :: rest) false with
            | err e => rw [hm] at hag; simp only [Agree] at hag; simp only [hag, ebind_err, AgreeRun]
            | esc x =>
              rw [hm] at hag; simp only [Agree] at hag
              cases hr : Src.Decoder.decode_literal F' (absD st) (b0 :: rest) false with
              | ok a => rw [hr] at hag; simp [dropS] at hag
              | error es => obtain ⟨e, s⟩ := es; rw [hr] at hag; simp only [dropS, Except.error.injEq] at hag; simp [AgreeRun, ebind_err, dropS, hag]
            | ok r =>
              obtain ⟨h, c, t'⟩ := r
              have hgrow := decodeLiteral_length st (b0 :: rest) false _ hm
              rw [hm] at hag hsafe; simp only [Agree, litOk] at hag
              obtain ⟨hc1, hc2, hinv', _, hl'⟩ := hsafe (some h) c { st with table := t' } rfl
              simp only [hag, ebind_ok]
              rw [hdrop c]
              apply after_field D raw G n F' { st with table := t' } hsM infl i c h hlim
              exact ih { st with table := t' } (i + c) (h :: hsM) _ F' hinv' hlim (by omega) (by simp only [List.length_drop]; omega)
                (by simp only at hgrow ⊢; omega)

theorem mRun_is_decodeApi (st : Impl.DecState) (data : Bytes) (raw : Bool) :
    mRun (data.length + 1) st data [] 0 raw = Impl.decodeApi Gen.intCap true st data raw := by
  unfold mRun Impl.decodeApi Impl.decode
  cases Impl.decodeLoop Gen.intCap true (data.length + 1) st data [] 0 with
  | mk r st' => cases r <;> rfl

/-- **`Decoder.decode(data, raw)`**: the translated method agrees with `Impl.decodeApi` on the current tree — the returned
list (fields, order, never-indexed class; text through UTF-8), the decoder afterwards (table, sizes), every documented
error with its class *and the decoder it leaves behind*, for every state satisfying the table invariant (every reachable
state does), every octet string, both modes; the loop terminates. -/
theorem decode_agree (st : Impl.DecState) (data : Bytes) (raw : Bool) (hinv : Impl.Inv st.table) (hlim : st.listLimit < 10 ^ 4300)
    (G : Nat) (hG : G ≥ 3 * data.length + st.table.entries.length + 4) :
    AgreeRun (Src.Decoder.decode G (absD st) data raw) (Impl.decodeApi Gen.intCap true st data raw) := by
  rw [decode_struct, ← mRun_is_decodeApi]
  have := run_agree data raw G (data.length + 1) st 0 [] 0 G hinv hlim (by omega) (by simp) (by omega)
  simpa using this

end SrcTie
