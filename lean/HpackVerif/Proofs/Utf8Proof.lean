import HpackVerif.Impl.Api
/-! The UTF-8 bytes of every Python `str` the model admits (a sequence of Unicode scalar values = a Lean
    `String`) are accepted by the model of CPython's strict decoder: text fields always survive text mode. -/
namespace Impl

theorem toNat_ofNat_small (x : Nat) (h : x < 256) : (UInt8.ofNat x).toNat = x := by
  rw [UInt8.toNat_ofNat']; exact Nat.mod_eq_of_lt h

theorem vu1 (b0 : UInt8) (rest : List UInt8) (h : b0.toNat < 0x80) : validUtf8 (b0 :: rest) = validUtf8 rest := by
  conv => lhs; unfold validUtf8
  simp [h]
theorem vu2 (b0 b1 : UInt8) (rest : List UInt8) (h1 : ¬ b0.toNat < 0x80) (h : 0xC2 ≤ b0.toNat ∧ b0.toNat ≤ 0xDF) :
    validUtf8 (b0 :: b1 :: rest) = (isCont b1 && validUtf8 rest) := by
  conv => lhs; unfold validUtf8
  simp [h1, h]
theorem vu3 (b0 b1 b2 : UInt8) (rest : List UInt8) (h1 : ¬ b0.toNat < 0x80) (h2 : ¬ (0xC2 ≤ b0.toNat ∧ b0.toNat ≤ 0xDF))
    (h : 0xE0 ≤ b0.toNat ∧ b0.toNat ≤ 0xEF) :
    validUtf8 (b0 :: b1 :: b2 :: rest) =
      ((if b0.toNat = 0xE0 then inRange b1 0xA0 0xBF else if b0.toNat = 0xED then inRange b1 0x80 0x9F else isCont b1)
          && isCont b2 && validUtf8 rest) := by
  conv => lhs; unfold validUtf8
  simp [h1, h2, h]
theorem vu4 (b0 b1 b2 b3 : UInt8) (rest : List UInt8) (h1 : ¬ b0.toNat < 0x80) (h2 : ¬ (0xC2 ≤ b0.toNat ∧ b0.toNat ≤ 0xDF))
    (h3 : ¬ (0xE0 ≤ b0.toNat ∧ b0.toNat ≤ 0xEF)) (h : 0xF0 ≤ b0.toNat ∧ b0.toNat ≤ 0xF4) :
    validUtf8 (b0 :: b1 :: b2 :: b3 :: rest) =
      ((if b0.toNat = 0xF0 then inRange b1 0x90 0xBF else if b0.toNat = 0xF4 then inRange b1 0x80 0x8F else isCont b1)
          && isCont b2 && isCont b3 && validUtf8 rest) := by
  conv => lhs; unfold validUtf8
  simp [h1, h2, h3, h]

/-- the encoding of one scalar value is a valid sequence, whatever follows -/
theorem validUtf8_char (c : Char) (rest : List UInt8) :
    validUtf8 (String.utf8EncodeChar c ++ rest) = validUtf8 rest := by
  have hvalid : c.val.toNat < 55296 ∨ 57343 < c.val.toNat ∧ c.val.toNat < 1114112 := c.valid
  unfold String.utf8EncodeChar
  generalize c.val.toNat = v at *
  simp only
  split
  · rename_i h1
    simp only [List.cons_append, List.nil_append]
    rw [vu1 _ _ (by rw [toNat_ofNat_small v (by omega)]; omega)]
  · split
    · rename_i h1 h2
      simp only [List.cons_append, List.nil_append]
      have e0 := toNat_ofNat_small (v / 64 % 32 + 192) (by omega)
      have e1 := toNat_ofNat_small (v % 64 + 128) (by omega)
      rw [vu2 _ _ _ (by rw [e0]; omega) (by rw [e0]; omega)]
      simp only [isCont, e1]
      have : (decide (128 ≤ v % 64 + 128) && decide (v % 64 + 128 ≤ 191)) = true := by simp; omega
      rw [this]; simp
    · split
      · rename_i h1 h2 h3
        simp only [List.cons_append, List.nil_append]
        have e0 := toNat_ofNat_small (v / 4096 % 16 + 224) (by omega)
        have e1 := toNat_ofNat_small (v / 64 % 64 + 128) (by omega)
        have e2 := toNat_ofNat_small (v % 64 + 128) (by omega)
        rw [vu3 _ _ _ _ (by rw [e0]; omega) (by rw [e0]; omega) (by rw [e0]; omega)]
        simp only [isCont, inRange, e0, e1, e2]
        have c2 : (decide (128 ≤ v % 64 + 128) && decide (v % 64 + 128 ≤ 191)) = true := by simp; omega
        rw [c2]
        by_cases hE0 : v / 4096 % 16 + 224 = 224
        · rw [if_pos hE0]
          have : (decide (160 ≤ v / 64 % 64 + 128) && decide (v / 64 % 64 + 128 ≤ 191)) = true := by simp; omega
          rw [this]; simp
        · rw [if_neg hE0]
          by_cases hED : v / 4096 % 16 + 224 = 237
          · rw [if_pos hED]
            have : (decide (128 ≤ v / 64 % 64 + 128) && decide (v / 64 % 64 + 128 ≤ 159)) = true := by simp; omega
            rw [this]; simp
          · rw [if_neg hED]
            have : (decide (128 ≤ v / 64 % 64 + 128) && decide (v / 64 % 64 + 128 ≤ 191)) = true := by simp; omega
            rw [this]; simp
      · rename_i h1 h2 h3
        simp only [List.cons_append, List.nil_append]
        have e0 := toNat_ofNat_small (v / 262144 % 8 + 240) (by omega)
        have e1 := toNat_ofNat_small (v / 4096 % 64 + 128) (by omega)
        have e2 := toNat_ofNat_small (v / 64 % 64 + 128) (by omega)
        have e3 := toNat_ofNat_small (v % 64 + 128) (by omega)
        rw [vu4 _ _ _ _ _ (by rw [e0]; omega) (by rw [e0]; omega) (by rw [e0]; omega) (by rw [e0]; omega)]
        simp only [isCont, inRange, e0, e1, e2, e3]
        have c2 : (decide (128 ≤ v / 64 % 64 + 128) && decide (v / 64 % 64 + 128 ≤ 191)) = true := by simp; omega
        have c3 : (decide (128 ≤ v % 64 + 128) && decide (v % 64 + 128 ≤ 191)) = true := by simp; omega
        rw [c2, c3]
        by_cases hF0 : v / 262144 % 8 + 240 = 240
        · rw [if_pos hF0]
          have : (decide (144 ≤ v / 4096 % 64 + 128) && decide (v / 4096 % 64 + 128 ≤ 191)) = true := by simp; omega
          rw [this]; simp
        · rw [if_neg hF0]
          by_cases hF4 : v / 262144 % 8 + 240 = 244
          · rw [if_pos hF4]
            have : (decide (128 ≤ v / 4096 % 64 + 128) && decide (v / 4096 % 64 + 128 ≤ 143)) = true := by simp; omega
            rw [this]; simp
          · rw [if_neg hF4]
            have : (decide (128 ≤ v / 4096 % 64 + 128) && decide (v / 4096 % 64 + 128 ≤ 191)) = true := by simp; omega
            rw [this]; simp

theorem validUtf8_chars (m : List Char) : validUtf8 (m.flatMap String.utf8EncodeChar) = true := by
  induction m with
  | nil => simp [validUtf8]
  | cons c cs ih => rw [List.flatMap_cons, validUtf8_char, ih]

/-- **every text string encodes to bytes the strict UTF-8 decoder accepts** -/
theorem validUtf8_text (s : String) : validUtf8 (PyStr.text s).toBytes = true := by
  obtain ⟨m, hm⟩ := s.isValidUTF8
  show validUtf8 s.toUTF8.data.toList = true
  have : s.toUTF8 = m.utf8Encode := hm
  rw [this]
  simp only [List.utf8Encode, List.data_toByteArray]
  exact validUtf8_chars m

end Impl
