import HpackVerif.Proofs.Complete3
namespace RFC
open Impl
variable {own : Bool}

/-- C05 (one field): every accepted field is the octets of some representation under some choice -/
theorem decodeField_complete (c : Nat) (hc : CapOK c) (st : DecState) (data : Bytes) (seen : Bool)
    {oh : Option Header} {k : Nat} {st' : DecState}
    (h : decodeField (some c) own st data seen = .ok (oh, k, st')) :
    ∃ r ch, data.take k = reprOctets r ch ∧ k ≤ data.length ∧ 1 ≤ k ∧ RepOK (some c) r ch := by
  cases data with
  | nil => simp [decodeField] at h
  | cons b0 rest =>
    have hb0 : b0.toNat < 256 := b0.toNat_lt
    unfold decodeField at h
    dsimp only at h
    by_cases h80 : b0.toNat &&& 0x80 ≠ 0
    · rw [if_pos h80] at h
      cases hdi : decodeInt (some c) (b0 :: rest) 7 with
      | err e => simp [hdi, bind] at h
      | esc x => simp [hdi, bind] at h
      | ok r =>
        obtain ⟨i, k1⟩ := r
        obtain ⟨z, htake, hk1le, hk11, hiok, _⟩ := decodeInt_complete (some c) b0 rest 7 (by omega) (by omega) hdi
        obtain ⟨_, _, hvlt⟩ := decodeInt_spec c _ _ hdi
        simp only [hdi, bind, pure] at h
        cases hg : st.table.getByIndex i with
        | err e => simp [hg] at h
        | esc x => simp [hg] at h
        | ok ent =>
          simp only [hg, Out.ok.injEq, Prod.mk.injEq] at h
          obtain ⟨_, rfl, _⟩ := h
          refine ⟨.indexed i, ⟨z, ⟨false, 0⟩, ⟨false, 0⟩⟩, ?_, hk1le, hk11, ⟨hiok, printable c hc hvlt⟩⟩
          rw [htake, dispatch_idx ⟨b0.toNat, hb0⟩ h80]; rfl
    · have h80' : b0.toNat &&& 0x80 = 0 := by simpa using h80
      rw [if_neg h80] at h
      by_cases hor : b0.toNat &&& 0x40 ≠ 0 ∨ b0.toNat &&& 0x20 = 0
      · rw [if_pos hor] at h
        cases hl : decodeLiteral (some c) own st.table (b0 :: rest) (decide (b0.toNat &&& 0x40 ≠ 0)) with
        | err e => rw [hl] at h; simp [bind] at h
        | esc x => rw [hl] at h; simp [bind] at h
        | ok r =>
          obtain ⟨hdr, k1, t'⟩ := r
          rw [hl] at h
          simp only [bind, pure, Out.ok.injEq, Prod.mk.injEq] at h
          obtain ⟨_, rfl, _⟩ := h
          obtain ⟨nm, v, ch, h1, h2, h3, h4⟩ := decodeLiteral_complete (own := own) c hc st.table b0 rest h80' hor hl
          exact ⟨_, ch, h1, h2, h3, h4⟩
      · rw [if_neg hor] at h
        have h40 : b0.toNat &&& 0x40 = 0 := by
          have : ¬ b0.toNat &&& 0x40 ≠ 0 := fun hh => hor (Or.inl hh)
          simpa using this
        have h20 : b0.toNat &&& 0x20 ≠ 0 := fun hh => hor (Or.inr hh)
        cases seen with
        | true => simp at h
        | false =>
          simp only [Bool.false_eq_true, if_false] at h
          cases hdi : decodeInt (some c) (b0 :: rest) 5 with
          | err e => simp [hdi, bind] at h
          | esc x => simp [hdi, bind] at h
          | ok r =>
            obtain ⟨n, k1⟩ := r
            obtain ⟨z, htake, hk1le, hk11, hiok, _⟩ := decodeInt_complete (some c) b0 rest 5 (by omega) (by omega) hdi
            simp only [hdi, bind, pure] at h
            split at h
            · simp at h
            · cases hs : st.table.setMaxsize n with
              | err e => simp [hs] at h
              | esc x => simp [hs] at h
              | ok t' =>
                simp only [hs, Out.ok.injEq, Prod.mk.injEq] at h
                obtain ⟨_, rfl, _⟩ := h
                refine ⟨.sizeUpdate n, ⟨z, ⟨false, 0⟩, ⟨false, 0⟩⟩, ?_, hk1le, hk11, hiok⟩
                rw [htake, dispatch_upd ⟨b0.toNat, hb0⟩ h80' h40 h20]; rfl

/-- C05 (block): every accepted byte string is `blockOctets` of some representation list -/
theorem decodeLoop_complete (c : Nat) (hc : CapOK c) (fuel : Nat) (st : DecState) (data : Bytes)
    (hs : List Header) (infl : Nat) {out : List Header}
    (h : (decodeLoop (some c) own fuel st data hs infl).1 = .ok out) :
    ∃ rcs, data = blockOctets rcs ∧ ∀ rc ∈ rcs, RepOK (some c) rc.1 rc.2 := by
  induction fuel generalizing st data hs infl with
  | zero => simp [decodeLoop] at h
  | succ fuel ih =>
    cases data with
    | nil => exact ⟨[], rfl, by simp⟩
    | cons b0 rest =>
      rw [decodeLoop_cons] at h
      cases hf : decodeField (some c) own st (b0 :: rest) (!hs.isEmpty) with
      | err e => simp [hf] at h
      | esc x => simp [hf] at h
      | ok r =>
        obtain ⟨oh, k, st'⟩ := r
        obtain ⟨r, ch, htake, hkle, hk1, hrok⟩ := decodeField_complete (own := own) c hc st _ _ hf
        simp only [hf] at h
        have hrec : ∃ hs' infl', (decodeLoop (some c) own fuel st' (List.drop k (b0 :: rest)) hs' infl').1 = .ok out := by
          cases oh with
          | none => exact ⟨hs, infl, h⟩
          | some hd =>
            dsimp only at h
            split at h
            · simp at h
            · exact ⟨_, _, h⟩
        obtain ⟨hs', infl', hrec⟩ := hrec
        obtain ⟨rcs, hd, hok⟩ := ih st' _ hs' infl' hrec
        refine ⟨(r, ch) :: rcs, ?_, ?_⟩
        · simp only [blockOctets]
          rw [← htake, ← hd, List.take_append_drop]
        · intro rc hrc
          simp only [List.mem_cons] at hrc
          rcases hrc with rfl | hrc
          · exact hrok
          · exact hok rc hrc

/-- **C05 accept-iff**: the decoder accepts a byte string exactly when it is a well-formed block whose
    RFC meaning in the current context is defined, and then returns that meaning -/
theorem accept_iff (c : Nat) (hc : CapOK c) (st : DecState) (hinv : Inv st.table) (data : Bytes) (fs : List Field) :
    (∃ out, (decode (some c) own st data).1 = .ok out ∧ out.map absH = fs) ↔
    (∃ rcs, data = blockOctets rcs ∧ (∀ rc ∈ rcs, RepOK (some c) rc.1 rc.2) ∧
      (interp (abs st) (rcs.map (·.1))).1 = .ok fs) := by
  constructor
  · rintro ⟨out, hd, hout⟩
    obtain ⟨rcs, hdata, hok⟩ := decodeLoop_complete (own := own) c hc _ st data [] 0 hd
    refine ⟨rcs, hdata, hok, ?_⟩
    have hs := decode_blockOctets (own := own) (some c) st hinv rcs hok
    rw [← hdata] at hs
    obtain ⟨h1, _⟩ := hs
    cases hi : (interp (abs st) (rcs.map (·.1))).1 with
    | error e => rw [hi] at h1; rw [hd] at h1; simp at h1
    | ok fs' =>
      rw [hi] at h1
      obtain ⟨hs', h2, h3⟩ := h1
      rw [hd] at h2
      simp only [Out.ok.injEq] at h2
      subst h2; rw [← h3, hout]
  · rintro ⟨rcs, hdata, hok, hi⟩
    have hs := decode_blockOctets (own := own) (some c) st hinv rcs hok
    rw [← hdata] at hs
    obtain ⟨h1, _⟩ := hs
    rw [hi] at h1
    exact h1

end RFC
#print axioms RFC.accept_iff
