import Mathlib.Tactic.Ring
import HpackVerif.RFC.Wire
import HpackVerif.Impl.EncModel
import HpackVerif.Proofs.DecProof
namespace RFC
open Impl

theorem digits_ne_nil (r : Nat) : digits r ≠ [] := by
  rw [digits]; split <;> simp

theorem digits_lt (r : Nat) : ∀ d ∈ digits r, d < 128 := by
  induction r using digits.induct with
  | case1 r h ih =>
    rw [digits]; simp only [h, dite_true, List.mem_cons]
    rintro d (rfl | hd)
    · omega
    · exact ih d hd
  | case2 r h =>
    rw [digits]; simp only [h, dite_false, List.mem_singleton]
    rintro d rfl; omega

theorem dval_digits (r : Nat) : dval (digits r) = r := by
  induction r using digits.induct with
  | case1 r h ih => rw [digits]; simp only [h, dite_true, dval, ih]; omega
  | case2 r h => rw [digits]; simp [h, dval]

theorem dval_append_zeros (ds : List Nat) (z : Nat) : dval (ds ++ List.replicate z 0) = dval ds := by
  induction ds with
  | nil =>
    induction z with
    | zero => simp [dval]
    | succ z ih => simp only [List.nil_append] at ih; simp [List.replicate_succ, dval, ih]
  | cons d ds ih => simp [dval, ih]

/-- C11 (encoder side): `encode_integer`'s loop emits exactly the §5.1 continuation octets -/
theorem encTail_eq (r : Nat) : encTail r = contOctets (digits r) := by
  induction r using digits.induct with
  | case1 r h ih =>
    rw [encTail, digits]
    simp only [h, dite_true]
    have e1 : r &&& 127 = r % 128 := by
      have := Nat.and_two_pow_sub_one_eq_mod r 7; simpa using this
    have e2 : r >>> 7 = r / 128 := by simp [Nat.shiftRight_eq_div_pow]
    rw [e1, e2, ih]
    have hne := digits_ne_nil (r / 128)
    cases hd : digits (r / 128) with
    | nil => exact absurd hd hne
    | cons d ds => simp [contOctets]
  | case2 r h =>
    rw [encTail, digits]; simp [h, contOctets]

theorem encodeInt_eq (n N : Nat) : Impl.encodeInt n N = intOctets N 0 n 0 := by
  unfold Impl.encodeInt intOctets
  simp only [Nat.zero_add, List.replicate_zero, List.append_nil]
  split
  · rfl
  · rw [encTail_eq]

theorem contOctets_length (ds : List Nat) : (contOctets ds).length = ds.length := by
  induction ds with
  | nil => rfl
  | cons d ds ih =>
    cases ds with
    | nil => rfl
    | cons d' ds => simp only [contOctets, List.length_cons] at ih ⊢; omega

/-- the decoder's accumulation loop inverts `contOctets`, within the cap -/
theorem decLoop_contOctets (cap : Option Nat) (ds : List Nat) (hne : ds ≠ []) (hd : ∀ d ∈ ds, d < 128)
    (rest : Bytes) (number shift index : Nat)
    (hcap : ∀ c, cap = some c → shift + 7 * (ds.length - 1) ≤ c) :
    decLoop cap (contOctets ds ++ rest) number shift index
      = .ok (number + (dval ds) <<< shift, index + ds.length) := by
  induction ds generalizing number shift index with
  | nil => exact absurd rfl hne
  | cons d ds ih =>
    have hd0 : d < 128 := hd d (by simp)
    cases ds with
    | nil =>
      simp only [contOctets, List.cons_append, List.nil_append]
      unfold decLoop
      have hb : (UInt8.ofNat d).toNat = d := by rw [UInt8.toNat_ofNat']; exact Nat.mod_eq_of_lt (by omega)
      rw [hb, if_neg (by omega)]
      simp [dval]
    | cons d' ds' =>
      simp only [contOctets, List.cons_append]
      unfold decLoop
      have hb : (UInt8.ofNat (d + 128)).toNat = d + 128 := by
        rw [UInt8.toNat_ofNat']; exact Nat.mod_eq_of_lt (by omega)
      rw [hb, if_pos (by omega)]
      have hcapok : ¬ capExceeded cap (shift + 7) = true := by
        cases cap with
        | none => simp [capExceeded]
        | some c =>
          have := hcap c rfl
          simp only [List.length_cons] at this
          simp [capExceeded]; omega
      rw [if_neg hcapok, Nat.add_sub_cancel]
      have ih' := ih (by simp) (fun x hx => hd x (by simp [hx])) (number + d <<< shift) (shift + 7) (index + 1)
        (by
          intro c hc
          have := hcap c hc
          simp only [List.length_cons] at this ⊢
          omega)
      rw [ih']
      simp only [List.length_cons, dval]
      congr 2
      · simp only [Nat.shiftLeft_eq, Nat.pow_add]
        have : (2:Nat) ^ 7 = 128 := by decide
        rw [this]
        ring
      · omega

/-- C11 (decoder side): decoding the octets of `v`, whatever follows and whatever the high bits are -/
theorem decodeInt_intOctets (cap : Option Nat) (N : Nat) (hN1 : 1 ≤ N) (hN8 : N ≤ 8) (hi v z : Nat)
    (hhi : hi % 2 ^ N = 0) (hhi2 : hi < 256) (rest : Bytes)
    (hcap : ∀ c, cap = some c → 2 ^ N - 1 ≤ v → 7 * ((digits (v - (2 ^ N - 1))).length + z - 1) ≤ c) :
    decodeInt cap (intOctets N hi v z ++ rest) N = .ok (v, (intOctets N hi v z).length) := by
  have hpow : 2 ^ N ≤ 256 := by
    calc 2 ^ N ≤ 2 ^ 8 := Nat.pow_le_pow_right (by omega) hN8
      _ = 256 := by decide
  have hpos : 0 < 2 ^ N := Nat.two_pow_pos N
  have hmask : (0xFF >>> (8 - N)) = 2 ^ N - 1 := by
    have : ∀ n : Fin 9, 1 ≤ n.val → (0xFF >>> (8 - n.val)) = 2 ^ n.val - 1 := by decide
    exact this ⟨N, by omega⟩ hN1
  -- low N bits of (hi + x) for x < 2^N
  have hlow : ∀ x, x < 2 ^ N → hi + x < 256 ∧ (hi + x) &&& (2 ^ N - 1) = x := by
    intro x hx
    have h1 : hi + x < 256 := by
      obtain ⟨q, hq⟩ := Nat.dvd_of_mod_eq_zero hhi
      have : q < 256 / 2 ^ N := by
        apply Nat.lt_of_mul_lt_mul_left (a := 2 ^ N)
        have := Nat.div_mul_cancel (show 2 ^ N ∣ 256 from by
          have : ∀ n : Fin 9, 2 ^ n.val ∣ 256 := by decide
          exact this ⟨N, by omega⟩)
        rw [Nat.mul_comm] at this; omega
      have hq' : (q + 1) * 2 ^ N ≤ 256 := by
        have := Nat.div_mul_le_self 256 (2 ^ N)
        calc (q + 1) * 2 ^ N ≤ (256 / 2 ^ N) * 2 ^ N := Nat.mul_le_mul_right _ (by omega)
          _ ≤ 256 := this
      rw [Nat.add_mul] at hq'; rw [hq, Nat.mul_comm]; omega
    refine ⟨h1, ?_⟩
    rw [Nat.and_two_pow_sub_one_eq_mod, Nat.add_mod, hhi]; simp [Nat.mod_eq_of_lt hx]
  unfold intOctets
  by_cases hv : v < 2 ^ N - 1
  · simp only [hv, if_true, List.cons_append, List.nil_append, decodeInt, hmask]
    obtain ⟨h1, h2⟩ := hlow v (by omega)
    have hb : (UInt8.ofNat (hi + v)).toNat = hi + v := by rw [UInt8.toNat_ofNat']; exact Nat.mod_eq_of_lt h1
    simp only [hb, h2]
    have : ¬ v = 2 ^ N - 1 := by omega
    simp [this]
  · simp only [hv, if_false, List.cons_append, decodeInt, hmask]
    obtain ⟨h1, h2⟩ := hlow (2 ^ N - 1) (by omega)
    have hb : (UInt8.ofNat (hi + (2 ^ N - 1))).toNat = hi + (2 ^ N - 1) := by
      rw [UInt8.toNat_ofNat']; exact Nat.mod_eq_of_lt h1
    simp only [hb, h2, if_true]
    rw [decLoop_contOctets cap _ (by simp [digits_ne_nil]) ?_ rest _ 0 1 ?_]
    · simp only [dval_append_zeros, dval_digits, Nat.shiftLeft_zero, List.length_append, List.length_replicate,
        List.length_cons, contOctets_length]
      congr 2 <;> omega
    · intro d hd
      simp only [List.mem_append, List.mem_replicate] at hd
      rcases hd with hd | ⟨_, rfl⟩
      · exact digits_lt _ d hd
      · omega
    · intro c hc
      have := hcap c hc (by omega)
      simp only [List.length_append, List.length_replicate]; omega

end RFC
#print axioms RFC.decodeInt_intOctets
#print axioms RFC.encodeInt_eq
