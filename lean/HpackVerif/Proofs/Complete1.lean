import HpackVerif.Proofs.Sound3
namespace RFC
open Impl

/-! ### integers: whatever `decode_integer` accepts is a §5.1 encoding of the value it returns -/

theorem digits_zero : digits 0 = [0] := by rw [digits]; simp
theorem digits_small {r : Nat} (h : r < 128) : digits r = [r] := by rw [digits]; simp; omega
theorem digits_big {r : Nat} (h : r ≥ 128) : digits r = (r % 128) :: digits (r / 128) := by
  rw [digits]; simp [h]

/-- any digit string is the minimal one followed by redundant zero digits -/
theorem digits_canonical (ds : List Nat) (hne : ds ≠ []) (hd : ∀ d ∈ ds, d < 128) :
    ∃ z, ds = digits (dval ds) ++ List.replicate z 0 := by
  induction ds with
  | nil => exact absurd rfl hne
  | cons d ds ih =>
    have hd0 : d < 128 := hd d (by simp)
    cases ds with
    | nil => exact ⟨0, by simp [dval, digits_small hd0]⟩
    | cons d' ds' =>
      obtain ⟨z, hz⟩ := ih (by simp) (fun x hx => hd x (by simp [hx]))
      by_cases hr : dval (d' :: ds') = 0
      · refine ⟨z + 1, ?_⟩
        rw [hr, digits_zero] at hz
        simp only [dval] at hr ⊢
        have : d + 128 * (d' + 128 * dval ds') = d := by omega
        rw [this, digits_small hd0, hz]
        simp [List.replicate_succ]
      · refine ⟨z, ?_⟩
        have hbig : dval (d :: d' :: ds') ≥ 128 := by simp only [dval] at hr ⊢; omega
        rw [digits_big hbig]
        have h1 : dval (d :: d' :: ds') % 128 = d := by simp only [dval]; omega
        have h2 : dval (d :: d' :: ds') / 128 = dval (d' :: ds') := by simp only [dval]; omega
        rw [h1, h2]
        simp only [List.cons_append, List.cons.injEq, true_and]
        exact hz

theorem contOctets_cons2 (d d' : Nat) (ds : List Nat) :
    contOctets (d :: d' :: ds) = UInt8.ofNat (d + 128) :: contOctets (d' :: ds) := rfl

theorem decLoop_complete (cap : Option Nat) (rest : Bytes) (number shift index : Nat) {v k : Nat}
    (hs0 : ∀ c, cap = some c → shift ≤ c)
    (h : decLoop cap rest number shift index = .ok (v, k)) :
    ∃ ds, ds ≠ [] ∧ (∀ d ∈ ds, d < 128) ∧ rest.take ds.length = contOctets ds ∧ ds.length ≤ rest.length ∧
      k = index + ds.length ∧ v = number + (dval ds) <<< shift ∧
      (∀ c, cap = some c → shift + 7 * (ds.length - 1) ≤ c) := by
  induction rest generalizing number shift index with
  | nil => simp [decLoop] at h
  | cons b bs ih =>
    unfold decLoop at h
    have hb : b.toNat < 256 := b.toNat_lt
    by_cases hge : b.toNat ≥ 128
    · rw [if_pos hge] at h
      by_cases hcap : capExceeded cap (shift + 7) = true
      · rw [if_pos hcap] at h; simp at h
      · rw [if_neg hcap] at h
        have hs1 : ∀ c, cap = some c → shift + 7 ≤ c := by
          intro c hcc; subst hcc
          have : ¬ shift + 7 > c := by simpa [capExceeded] using hcap
          omega
        obtain ⟨ds, hne, hd, htake, hlen, hk, hv, hc⟩ := ih _ _ _ hs1 h
        refine ⟨(b.toNat - 128) :: ds, by simp, ?_, ?_, by simp; omega, by simp; omega, ?_, ?_⟩
        · intro d hdm
          simp only [List.mem_cons] at hdm
          rcases hdm with hdm | hdm
          · rw [hdm]; omega
          · exact hd d hdm
        · cases ds with
          | nil => exact absurd rfl hne
          | cons d' ds' =>
            rw [contOctets_cons2]
            simp only [List.length_cons, List.take_succ_cons]
            refine congrArg₂ List.cons ?_ ?_
            · apply UInt8.toNat_inj.mp
              rw [toNat_ofNat_lt (by omega)]; omega
            · simpa using htake
        · rw [hv]
          simp only [dval, Nat.shiftLeft_eq, Nat.pow_add]
          have : (2:Nat) ^ 7 = 128 := by decide
          rw [this]
          ring
        · intro c hcc
          have h1 := hc c hcc
          have h2 : ¬ shift + 7 > c := by
            subst hcc; simpa [capExceeded] using hcap
          simp only [List.length_cons] at h1 ⊢
          have : ds.length ≥ 1 := by cases ds with | nil => exact absurd rfl hne | cons _ _ => simp
          omega
    · rw [if_neg hge] at h
      simp only [Out.ok.injEq, Prod.mk.injEq] at h
      obtain ⟨rfl, rfl⟩ := h
      refine ⟨[b.toNat], by simp, by simp; omega, ?_, by simp, by simp, by simp [dval], ?_⟩
      · simp only [List.length_cons, List.length_nil, List.take_succ_cons, List.take_zero, contOctets]
        congr 1
        apply UInt8.toNat_inj.mp
        rw [toNat_ofNat_lt (by omega)]
      · intro c hcc; have := hs0 c hcc; simpa using this

theorem hi_facts (N : Nat) (hN1 : 1 ≤ N) (hN8 : N ≤ 8) (b : Nat) (hb : b < 256) :
    let lo := b &&& (2 ^ N - 1)
    let hi := b - lo
    lo ≤ 2 ^ N - 1 ∧ hi % 2 ^ N = 0 ∧ hi < 256 ∧ hi + lo = b := by
  intro lo hi
  have hlo : lo = b % 2 ^ N := Nat.and_two_pow_sub_one_eq_mod b N
  have hpos : 0 < 2 ^ N := Nat.two_pow_pos N
  have hle : lo ≤ b := by rw [hlo]; exact Nat.mod_le _ _
  have hlt : lo < 2 ^ N := by rw [hlo]; exact Nat.mod_lt _ hpos
  refine ⟨by omega, ?_, by omega, by omega⟩
  show (b - lo) % 2 ^ N = 0
  rw [hlo]
  have := Nat.div_add_mod b (2 ^ N)
  have e : b - b % 2 ^ N = 2 ^ N * (b / 2 ^ N) := by omega
  rw [e]; exact Nat.mul_mod_right _ _

/-- C11/C05: an accepted integer is `intOctets` of its value, with the first octet's high bits and
    some number of redundant zero digits that the cap admits -/
theorem decodeInt_complete (cap : Option Nat) (b0 : UInt8) (rest : Bytes) (N : Nat) (hN1 : 1 ≤ N) (hN8 : N ≤ 8)
    {v k : Nat} (h : decodeInt cap (b0 :: rest) N = .ok (v, k)) :
    ∃ z, (b0 :: rest).take k = intOctets N (b0.toNat - (b0.toNat &&& (2 ^ N - 1))) v z ∧
      k ≤ (b0 :: rest).length ∧ 1 ≤ k ∧ IntOK cap N v z ∧
      prefixVal N v = b0.toNat &&& (2 ^ N - 1) := by
  have hmask : (0xFF >>> (8 - N)) = 2 ^ N - 1 := by
    have : ∀ n : Fin 9, 1 ≤ n.val → (0xFF >>> (8 - n.val)) = 2 ^ n.val - 1 := by decide
    exact this ⟨N, by omega⟩ hN1
  have hb0 : b0.toNat < 256 := b0.toNat_lt
  obtain ⟨hlo, hmod, h256, hsum⟩ := hi_facts N hN1 hN8 b0.toNat b0.toNat_lt
  unfold decodeInt at h
  simp only [hmask] at h
  by_cases hsat : b0.toNat &&& (2 ^ N - 1) = 2 ^ N - 1
  · rw [if_pos hsat] at h
    obtain ⟨ds, hne, hd, htake, hlen, hk, hv, hc⟩ := decLoop_complete cap rest _ 0 1 (fun _ _ => Nat.zero_le _) h
    obtain ⟨z, hz⟩ := digits_canonical ds hne hd
    have hvge : 2 ^ N - 1 ≤ v := by rw [hv]; omega
    have hdv : dval ds = v - (2 ^ N - 1) := by
      rw [hv, Nat.shiftLeft_zero]; omega
    refine ⟨z, ?_, by simp; omega, by omega, ?_, ?_⟩
    · unfold intOctets
      rw [if_neg (by omega)]
      have : k = ds.length + 1 := by omega
      rw [this, List.take_succ_cons, htake, ← hdv, ← hz]
      refine congrArg₂ List.cons ?_ rfl
      apply UInt8.toNat_inj.mp
      rw [toNat_ofNat_lt (by omega)]; omega
    · intro c hcc _
      have := hc c hcc
      have hl : ds.length = (digits (v - (2 ^ N - 1))).length + z := by
        rw [← hdv]; conv => lhs; rw [hz]
        simp
      omega
    · unfold prefixVal; rw [if_neg (by omega)]; omega
  · rw [if_neg hsat] at h
    simp only [Out.ok.injEq, Prod.mk.injEq] at h
    obtain ⟨rfl, rfl⟩ := h
    refine ⟨0, ?_, by simp, by omega, ?_, ?_⟩
    · unfold intOctets
      rw [if_pos (by omega)]
      simp only [List.take_succ_cons, List.take_zero]
      refine congrArg₂ List.cons ?_ rfl
      apply UInt8.toNat_inj.mp
      rw [toNat_ofNat_lt (by omega)]; omega
    · intro c _ hge; omega
    · unfold prefixVal; rw [if_pos (by omega)]

end RFC
#print axioms RFC.decodeInt_complete
