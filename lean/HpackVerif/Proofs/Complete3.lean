import HpackVerif.Proofs.Complete2
namespace RFC
open Impl
variable {own : Bool}

/-- first-octet facts in the decoding direction, for every octet value -/
def ixOfByte (b : Nat) : Indexing :=
  if b &&& 0x40 ≠ 0 then .incremental else if b &&& 0x10 ≠ 0 then .never else .without

set_option maxRecDepth 100000 in
theorem dispatch_idx : ∀ b : Fin 256, b.val &&& 0x80 ≠ 0 → b.val - (b.val &&& (2 ^ 7 - 1)) = 0x80 := by
  decide +kernel
set_option maxRecDepth 100000 in
theorem dispatch_inc : ∀ b : Fin 256, b.val &&& 0x80 = 0 → b.val &&& 0x40 ≠ 0 →
    b.val - (b.val &&& (2 ^ 6 - 1)) = 0x40 ∧ b.val &&& 0x3F = b.val &&& (2 ^ 6 - 1) := by decide +kernel
set_option maxRecDepth 100000 in
theorem dispatch_noinc : ∀ b : Fin 256, b.val &&& 0x80 = 0 → b.val &&& 0x40 = 0 → b.val &&& 0x20 = 0 →
    b.val - (b.val &&& (2 ^ 4 - 1)) = (if b.val &&& 0x10 ≠ 0 then 0x10 else 0) ∧
    b.val &&& 0x0F = b.val &&& (2 ^ 4 - 1) := by decide +kernel
set_option maxRecDepth 100000 in
theorem dispatch_upd : ∀ b : Fin 256, b.val &&& 0x80 = 0 → b.val &&& 0x40 = 0 → b.val &&& 0x20 ≠ 0 →
    b.val - (b.val &&& (2 ^ 5 - 1)) = 0x20 := by decide +kernel

theorem take_add_drop (data : Bytes) (a b : Nat) :
    data.take (a + b) = data.take a ++ (data.drop a).take b := List.take_add

theorem printable (c : Nat) (hc : CapOK c) {v : Nat} (h : v < 2 ^ (c + 9)) : v < 10 ^ maxStrDigits :=
  Nat.lt_of_lt_of_le h hc

/-- C05 (literal branch): an accepted literal field is the octets of some literal representation -/
theorem decodeLiteral_complete (c : Nat) (hc : CapOK c) (t : Table) (b0 : UInt8) (rest : Bytes)
    (h80 : b0.toNat &&& 0x80 = 0) (hor : b0.toNat &&& 0x40 ≠ 0 ∨ b0.toNat &&& 0x20 = 0)
    {h : Header} {k : Nat} {t' : Table}
    (hd : decodeLiteral (some c) own t (b0 :: rest) (decide (b0.toNat &&& 0x40 ≠ 0)) = .ok (h, k, t')) :
    ∃ nm v ch, (b0 :: rest).take k = reprOctets (.literal (ixOfByte b0.toNat) nm v) ch ∧
      k ≤ (b0 :: rest).length ∧ 1 ≤ k ∧ RepOK (some c) (.literal (ixOfByte b0.toNat) nm v) ch := by
  have hb0 : b0.toNat < 256 := b0.toNat_lt
  -- prefix width, pattern and mask agree with `ixOfByte`
  have hpat : ∃ N, N = (ixOfByte b0.toNat).pfx ∧
      b0.toNat - (b0.toNat &&& (2 ^ N - 1)) = (ixOfByte b0.toNat).pat ∧
      (if decide (b0.toNat &&& 0x40 ≠ 0) = true then b0.toNat &&& 0x3F else b0.toNat &&& 0x0F)
        = b0.toNat &&& (2 ^ N - 1) ∧
      (if decide (b0.toNat &&& 0x40 ≠ 0) = true then 6 else 4) = N := by
    by_cases h40 : b0.toNat &&& 0x40 ≠ 0
    · obtain ⟨f1, f2⟩ := dispatch_inc ⟨b0.toNat, hb0⟩ h80 h40
      refine ⟨6, by simp [ixOfByte, h40, Indexing.pfx], ?_, by simp [h40, f2], by simp [h40]⟩
      simp only [ixOfByte, if_pos h40, Indexing.pat]; exact f1
    · have h40' : b0.toNat &&& 0x40 = 0 := by simpa using h40
      have h20 : b0.toNat &&& 0x20 = 0 := by rcases hor with h | h; exact absurd h h40; exact h
      obtain ⟨f1, f2⟩ := dispatch_noinc ⟨b0.toNat, hb0⟩ h80 h40' h20
      refine ⟨4, ?_, ?_, by simp [h40, f2], by simp [h40]⟩
      · simp only [ixOfByte, if_neg h40]; split <;> rfl
      · simp only [ixOfByte, if_neg h40]
        split <;> simp_all [Indexing.pat]
  obtain ⟨N, hN, hhi, hmaskeq, hNeq⟩ := hpat
  have hN18 : 1 ≤ N ∧ N ≤ 8 := by
    rw [hN]; cases ixOfByte b0.toNat <;> simp [Indexing.pfx]
  unfold decodeLiteral at hd
  dsimp only at hd
  -- normalise the (indexedName, nameLen, notIndexable) triple
  have htrip : ∃ ni, (if decide (b0.toNat &&& 0x40 ≠ 0) = true then (b0.toNat &&& 0x3F, 6, false)
        else (b0.toNat &&& 0x0F, 4, decide (b0.toNat &&& 0x10 ≠ 0)))
      = (b0.toNat &&& (2 ^ N - 1), N, ni) := by
    by_cases h40 : b0.toNat &&& 0x40 ≠ 0
    · rw [decide_eq_true h40] at hmaskeq hNeq ⊢
      rw [if_pos rfl] at hmaskeq hNeq ⊢
      exact ⟨false, by rw [hmaskeq, hNeq]⟩
    · rw [decide_eq_false h40] at hmaskeq hNeq ⊢
      rw [if_neg (by simp)] at hmaskeq hNeq ⊢
      exact ⟨_, by rw [hmaskeq, hNeq]⟩
  obtain ⟨ni, htrip⟩ := htrip
  rw [htrip] at hd
  dsimp only at hd
  by_cases hin : b0.toNat &&& (2 ^ N - 1) ≠ 0
  · rw [if_pos hin] at hd
    cases hdi : decodeInt (some c) (b0 :: rest) N with
    | err e => simp [hdi, bind] at hd
    | esc x => simp [hdi, bind] at hd
    | ok r =>
      obtain ⟨i, k1⟩ := r
      obtain ⟨z, htake, hk1le, hk11, hiok, hpv⟩ := decodeInt_complete (some c) b0 rest N hN18.1 hN18.2 hdi
      obtain ⟨_, _, hvlt⟩ := decodeInt_spec c _ _ hdi
      simp only [hdi, bind, pure] at hd
      cases hg : t.getByIndex i with
      | err e => simp [hg] at hd
      | esc x => simp [hg] at hd
      | ok ent =>
        simp only [hg] at hd
        cases hr : readString (some c) own (List.drop k1 (b0 :: rest)) with
        | err e => simp [hr] at hd
        | esc x => simp [hr] at hd
        | ok r2 =>
          obtain ⟨value, k2⟩ := r2
          obtain ⟨cv, hvt, hk2le, hk21, hvok, _⟩ := readString_complete (own := own) (some c) _ hr
          have hkeq : k = k1 + k2 := by
            simp only [hr] at hd
            split at hd
            · cases ha : t.add ent.1 value with
              | ok t2 => simp only [ha, Out.ok.injEq, Prod.mk.injEq] at hd; exact hd.2.1.symm
              | err e => simp [ha] at hd
              | esc x => simp [ha] at hd
            · simp only [Out.ok.injEq, Prod.mk.injEq] at hd; exact hd.2.1.symm
          have hi1 : 1 ≤ i := by
            have : prefixVal N i ≠ 0 := by rw [hpv]; exact hin
            rw [Ne, prefixVal_eq_zero _ _ hN18.1] at this; omega
          refine ⟨.idx i, value.bytes, ⟨z, ⟨false, 0⟩, cv⟩, ?_, ?_, by omega, ?_⟩
          · rw [hkeq, take_add_drop, htake, hvt, hhi]
            simp only [reprOctets, hN]
          · rw [hkeq]; simp only [List.length_drop] at hk2le; omega
          · exact ⟨hi1, by rw [← hN]; exact hiok, printable c hc hvlt, hvok⟩
  · have hin0 : b0.toNat &&& (2 ^ N - 1) = 0 := by simpa using hin
    rw [if_neg hin] at hd
    cases hr1 : readString (some c) own rest with
    | err e => simp [hr1, bind] at hd
    | esc x => simp [hr1, bind] at hd
    | ok r1 =>
      obtain ⟨name, k1⟩ := r1
      obtain ⟨cn, hnt, hk1le, hk11, hnok, _⟩ := readString_complete (own := own) (some c) _ hr1
      simp only [hr1, bind, pure] at hd
      cases hr : readString (some c) own (List.drop k1 rest) with
      | err e => simp [hr] at hd
      | esc x => simp [hr] at hd
      | ok r2 =>
        obtain ⟨value, k2⟩ := r2
        obtain ⟨cv, hvt, hk2le, hk21, hvok, _⟩ := readString_complete (own := own) (some c) _ hr
        have hkeq : k = k1 + 1 + k2 := by
          simp only [hr] at hd
          split at hd
          · cases ha : t.add name value with
            | ok t2 => simp only [ha, Out.ok.injEq, Prod.mk.injEq] at hd; exact hd.2.1.symm
            | err e => simp [ha] at hd
            | esc x => simp [ha] at hd
          · simp only [Out.ok.injEq, Prod.mk.injEq] at hd; exact hd.2.1.symm
        have hb0eq : b0 = UInt8.ofNat (ixOfByte b0.toNat).pat := by
          apply UInt8.toNat_inj.mp
          rw [toNat_ofNat_lt (by rw [← hhi]; omega), ← hhi, hin0]; omega
        refine ⟨.lit name.bytes, value.bytes, ⟨0, cn, cv⟩, ?_, ?_, by omega, ⟨hnok, hvok⟩⟩
        · rw [hkeq, show k1 + 1 + k2 = (k1 + k2) + 1 by omega, List.take_succ_cons, take_add_drop, hnt, hvt]
          simp only [reprOctets]
          rw [← hb0eq]
        · rw [hkeq]; simp only [List.length_drop, List.length_cons] at hk2le ⊢; omega

end RFC
#print axioms RFC.decodeLiteral_complete
