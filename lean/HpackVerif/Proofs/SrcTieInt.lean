import HpackVerif.Generated.SrcInt
import HpackVerif.Impl.EncModel
/-! The hand-written model of the integer codec equals the mechanical translation of the source text
(`Generated/SrcInt.lean`, written by `tools/py2lean.py` on every run). -/
namespace SrcTie
open Py

/-- the continuation octets of §5.1 as Python integers -/
def encTailI (r : Nat) : List Int :=
  if _h : r ≥ 128 then (((r &&& 127) + 128 : Nat) : Int) :: encTailI (r >>> 7)
  else [(r : Int)]
termination_by r
decreasing_by simp [Nat.shiftRight_eq_div_pow]; omega

theorem encTailI_ge {r : Nat} (h : r ≥ 128) : encTailI r = (((r &&& 127) + 128 : Nat) : Int) :: encTailI (r >>> 7) := by
  rw [encTailI, dif_pos h]
theorem encTailI_lt {r : Nat} (h : ¬ r ≥ 128) : encTailI r = [(r : Int)] := by
  rw [encTailI, dif_neg h]

/-- formatting the offending integer into the message of a `ValueError` can itself only raise `ValueError` -/
theorem fmtInt_then_valueError {α} (x : Int) : (Py.fmtInt x >>= fun _ => (.error .valueError : Py.R α)) = .error .valueError := by
  unfold Py.fmtInt; split <;> rfl

theorem band_ofNat (a b : Nat) : Py.band (a : Int) (b : Int) = ((a &&& b : Nat) : Int) := rfl

theorem shr_ofNat (a s : Nat) : Py.shr (a : Int) (s : Int) = .ok ((a >>> s : Nat) : Int) := by
  unfold Py.shr
  have : ¬ ((s : Int) < 0) := by omega
  simp [this]

theorem while1_spec (r : Nat) : ∀ (fuel : Nat) (els : List Int), fuel > r →
    ∃ i' els', Src.encode_integer.while1 fuel (r : Int) els = .ok (i', els') ∧ els' ++ [i'] = els ++ encTailI r := by
  induction r using Nat.strongRecOn with
  | _ r ih =>
    intro fuel els hf
    match fuel, hf with
    | f + 1, hf =>
      unfold Src.encode_integer.while1
      by_cases h : r ≥ 128
      · have h' : (r : Int) ≥ 128 := by omega
        have hlt : r >>> 7 < r := by simp [Nat.shiftRight_eq_div_pow]; omega
        simp only [h', if_true]
        have hs : Py.shr (r : Int) 7 = .ok ((r >>> 7 : Nat) : Int) := shr_ofNat r 7
        simp only [hs, bind, Except.bind]
        obtain ⟨i', els', h1, h2⟩ := ih (r >>> 7) hlt f (els ++ [Py.band (r : Int) 127 + 128]) (by omega)
        refine ⟨i', els', h1, ?_⟩
        rw [h2, encTailI_ge h]
        have : Py.band (r : Int) 127 + 128 = (((r &&& 127) + 128 : Nat) : Int) := by
          have : Py.band (r : Int) 127 = ((r &&& 127 : Nat) : Int) := band_ofNat r 127
          rw [this]; simp
        rw [this]; simp
      · have h' : ¬ ((r : Int) ≥ 128) := by omega
        simp only [h', if_false]
        refine ⟨_, _, rfl, ?_⟩
        rw [encTailI_lt h]

theorem bytesOfInts_append (a b : List Int) (A B : Bytes) (ha : Py.bytesOfInts a = .ok A) (hb : Py.bytesOfInts b = .ok B) :
    Py.bytesOfInts (a ++ b) = .ok (A ++ B) := by
  induction a generalizing A with
  | nil => simp only [Py.bytesOfInts, Except.ok.injEq] at ha; subst ha; simpa using hb
  | cons x xs ih =>
    simp only [List.cons_append, Py.bytesOfInts] at ha ⊢
    by_cases hx : 0 ≤ x ∧ x < 256
    · simp only [hx, and_self, if_true] at ha ⊢
      cases hr : Py.bytesOfInts xs with
      | error e => simp [hr] at ha
      | ok r =>
        simp only [hr, Except.ok.injEq] at ha
        subst ha
        simp [ih r hr]
    · simp [hx] at ha

theorem bytesOfInts_single (n : Nat) (h : n < 256) : Py.bytesOfInts [(n : Int)] = .ok [UInt8.ofNat n] := by
  have : (0 : Int) ≤ (n : Int) ∧ (n : Int) < 256 := by omega
  simp [Py.bytesOfInts, this]

theorem bytesOfInts_encTailI (r : Nat) : Py.bytesOfInts (encTailI r) = .ok (Impl.encTail r) := by
  induction r using Nat.strongRecOn with
  | _ r ih =>
    by_cases h : r ≥ 128
    · have hlt : r >>> 7 < r := by simp [Nat.shiftRight_eq_div_pow]; omega
      rw [encTailI_ge h, Impl.encTail, dif_pos h]
      have hb : (r &&& 127) + 128 < 256 := by
        have : r &&& 127 ≤ 127 := Nat.and_le_right
        omega
      have := bytesOfInts_append [(((r &&& 127) + 128 : Nat) : Int)] (encTailI (r >>> 7)) _ _ (bytesOfInts_single _ hb) (ih _ hlt)
      simpa using this
    · rw [encTailI_lt h, Impl.encTail, dif_neg h]
      exact bytesOfInts_single r (by omega)

/-- what `encode_integer` does, by the hand-written model: the two `ValueError` guards, then `Impl.encodeInt` -/
def modelEncodeInteger (integer prefix_bits : Int) : Py.R Bytes :=
  if integer < 0 ∨ prefix_bits < 1 ∨ prefix_bits > 8 then .error .valueError
  else .ok (Impl.encodeInt integer.toNat prefix_bits.toNat)

theorem encode_integer_core (n N : Nat) (hN : 1 ≤ N ∧ N ≤ 8) (fuel : Nat) (hf : fuel > n) (m : Nat)
    (hm : Py.listGet Src.c__PREFIX_BIT_MAX_NUMBERS (N : Int) = .ok (m : Int)) (hm2 : m = 2 ^ N - 1) :
    Src.encode_integer fuel (n : Int) (N : Int) = .ok (Impl.encodeInt n N) := by
  unfold Src.encode_integer
  have h0 : ¬ ((n : Int) < 0) := by omega
  have h1 : ¬ ((N : Int) < 1 ∨ (N : Int) > 8) := by omega
  simp only [h0, h1, if_false, hm, bind, Except.bind]
  have hm256 : m < 256 := by
    rcases hN with ⟨a, b⟩
    have : 2 ^ N ≤ 2 ^ 8 := Nat.pow_le_pow_right (by decide) b
    omega
  unfold Impl.encodeInt
  by_cases hlt : n < m
  · have : (n : Int) < (m : Int) := by omega
    simp only [this, if_true, ← hm2, hlt]
    rw [bytesOfInts_single n (by omega)]
  · have hnlt : ¬ ((n : Int) < (m : Int)) := by omega
    simp only [hnlt, if_false, ← hm2, hlt]
    have hsub : (n : Int) - (m : Int) = ((n - m : Nat) : Int) := by omega
    rw [hsub]
    obtain ⟨i', els', hw, he⟩ := while1_spec (n - m) fuel [(m : Int)] (by omega)
    simp only [hw]
    rw [he]
    have := bytesOfInts_append [(m : Int)] (encTailI (n - m)) _ _ (bytesOfInts_single m hm256) (bytesOfInts_encTailI (n - m))
    simp only [this]
    rfl

/-- **Tie (encode_integer).** For every pair of Python integers, with enough fuel for the `while` loop, the translated
source returns exactly what the model says: `ValueError` for a negative integer or a prefix width outside 1..8,
otherwise the octets of `Impl.encodeInt`. In particular the loop terminates and nothing else is raised. -/
theorem encode_integer_tie (integer prefix_bits : Int) :
    ∃ f0, ∀ fuel, fuel ≥ f0 → Src.encode_integer fuel integer prefix_bits = modelEncodeInteger integer prefix_bits := by
  refine ⟨integer.toNat + 1, fun fuel hf => ?_⟩
  unfold modelEncodeInteger
  by_cases hneg : integer < 0
  · simp [Src.encode_integer, hneg, fmtInt_then_valueError]
  by_cases hp : prefix_bits < 1 ∨ prefix_bits > 8
  · simp only [Src.encode_integer, hneg, hp, if_true, if_false, or_true, fmtInt_then_valueError]
  · have hi : integer = ((integer.toNat : Nat) : Int) := by omega
    have hN : prefix_bits = ((prefix_bits.toNat : Nat) : Int) := by omega
    have hNr : 1 ≤ prefix_bits.toNat ∧ prefix_bits.toNat ≤ 8 := by omega
    simp only [hneg, hp, or_self, if_false]
    generalize prefix_bits.toNat = N at hN hNr
    generalize integer.toNat = n at hi hf
    subst hi hN
    have hcases : N = 1 ∨ N = 2 ∨ N = 3 ∨ N = 4 ∨ N = 5 ∨ N = 6 ∨ N = 7 ∨ N = 8 := by omega
    rcases hcases with h | h | h | h | h | h | h | h <;> subst h <;>
      exact encode_integer_core n _ (by decide) fuel (by omega) _ rfl (by decide)

/-- the model's outcome type read as Python's: documented errors and escapes are exception classes -/
def outToR {α} : Impl.Out α → Py.R α
  | .ok a => .ok a
  | .err .decoding => .error .hpackDecodingError
  | .err .invalidIndex => .error .invalidTableIndex
  | .err .invalidTableSize => .error .invalidTableSizeError
  | .err .oversized => .error .oversizedHeaderListError
  | .esc .valueError => .error .valueError
  | .esc .indexError => .error .indexError
  | .esc .nonTermination => .error .nonTermination

def castPair : Impl.Out (Nat × Nat) → Impl.Out (Int × Int)
  | .ok r => .ok ((r.1 : Int), (r.2 : Int))
  | .err e => .err e
  | .esc x => .esc x

/-- the `try … except IndexError: raise HPACKDecodingError` wrapper of `decode_integer` -/
def conv {α} (r : Py.R α) : Py.R α := Py.tryExcept r .indexError (.error .hpackDecodingError)

theorem getByte_drop (data : Bytes) (idx : Nat) (b : UInt8) (rest : Bytes) (h : data.drop idx = b :: rest) :
    Py.getByte data (idx : Int) = .ok (b.toNat : Int) := by
  have hlen : idx < data.length := by
    apply Classical.byContradiction; intro hc
    have : data.drop idx = [] := List.drop_eq_nil_of_le (by omega)
    rw [this] at h; cases h
  have hget : data[idx]? = some b := by
    have := List.getElem?_drop (xs := data) (i := idx) (j := 0)
    rw [h] at this
    simpa using this.symm
  unfold Py.getByte Py.normIndex
  have h1 : ¬ ((idx : Int) < 0) := by omega
  have h2 : (0 : Int) ≤ (idx : Int) ∧ (idx : Int) < (data.length : Int) := by omega
  simp [h1, h2, hget]

theorem getByte_drop_nil (data : Bytes) (idx : Nat) (h : data.drop idx = []) :
    Py.getByte data (idx : Int) = .error .indexError := by
  have hlen : data.length ≤ idx := by
    apply Classical.byContradiction; intro hc
    have : (data.drop idx).length = data.length - idx := List.length_drop
    rw [h] at this; simp at this; omega
  unfold Py.getByte Py.normIndex
  have h1 : ¬ ((idx : Int) < 0) := by omega
  have h3 : ¬ idx < data.length := by omega
  simp [h1, h3]

theorem shl_ofNat (a s : Nat) : Py.shl (a : Int) (s : Int) = .ok ((a <<< s : Nat) : Int) := by
  unfold Py.shl
  have : ¬ ((s : Int) < 0) := by omega
  simp [this, Nat.shiftLeft_eq, pure, Except.pure]

/-- the continuation loop: translated source (inside its `try`) = model, for every buffer, position, accumulator and shift -/
theorem while1_dec (c : Nat) (hc : Src.c__MAX_INTEGER_SHIFT = (c : Int)) :
    ∀ (rest data : Bytes) (idx number shift fuel : Nat), data.drop idx = rest → fuel > rest.length →
      conv ((Src.decode_integer.while1 fuel data (idx : Int) (shift : Int) (number : Int)).map (fun r => (r.2.2, r.1))) =
        outToR (castPair (Impl.decLoop (some c) rest number shift idx)) := by
  intro rest
  induction rest with
  | nil =>
    intro data idx number shift fuel hd hf
    match fuel, hf with
    | f + 1, _ =>
      unfold Src.decode_integer.while1
      simp [getByte_drop_nil data idx hd, Impl.decLoop, outToR, castPair, conv, Py.tryExcept, bind, Except.bind, Except.map]
  | cons b rest ih =>
    intro data idx number shift fuel hd hf
    match fuel, hf with
    | f + 1, hf =>
      unfold Src.decode_integer.while1
      simp only [if_true, getByte_drop data idx b rest hd, bind, Except.bind]
      unfold Impl.decLoop
      by_cases hb : b.toNat ≥ 128
      · have hb' : (b.toNat : Int) ≥ 128 := by omega
        have hsub : (b.toNat : Int) - 128 = ((b.toNat - 128 : Nat) : Int) := by omega
        simp only [hb', hb, if_true, hsub, shl_ofNat]
        have hsh : (shift : Int) + 7 = ((shift + 7 : Nat) : Int) := by omega
        rw [hsh, hc]
        by_cases hcap : shift + 7 > c
        · have : ((shift + 7 : Nat) : Int) > (c : Int) := by omega
          simp only [this, if_true, hcap, Impl.capExceeded, decide_true]
          simp [outToR, castPair, conv, Py.tryExcept, Except.map]
        · have : ¬ (((shift + 7 : Nat) : Int) > (c : Int)) := by omega
          simp only [this, if_false, Impl.capExceeded, hcap, decide_false]
          have hd' : data.drop (idx + 1) = rest := by
            have := List.drop_drop (l := data) (i := 1) (j := idx)
            rw [← this, hd]; rfl
          have := ih data (idx + 1) (number + ((b.toNat - 128) <<< shift)) (shift + 7) f hd' (by simp at hf; omega)
          simpa [Int.natCast_add] using this
      · have hb' : ¬ ((b.toNat : Int) ≥ 128) := by omega
        simp only [hb', hb, if_false, shl_ofNat]
        simp [outToR, castPair, conv, Py.tryExcept, Except.map, pure, Except.pure, Int.natCast_add]

/-- what `decode_integer` does, by the hand-written model: the `ValueError` guard, then `Impl.decodeInt` with the cap -/
def modelDecodeInteger (c : Nat) (data : Bytes) (prefix_bits : Int) : Py.R (Int × Int) :=
  if prefix_bits < 1 ∨ prefix_bits > 8 then .error .valueError
  else outToR (castPair (Impl.decodeInt (some c) data prefix_bits.toNat))

theorem tryExcept_bind_map {α β} (r : Py.R α) (f : α → β) :
    (Py.tryExcept r .indexError (.error .hpackDecodingError) >>= fun t => (.ok (f t) : Py.R β)) = conv (r.map f) := by
  cases r with
  | ok a => rfl
  | error e => by_cases h : e = Py.Exc.indexError <;> simp [Py.tryExcept, conv, Except.map, h, bind, Except.bind]

theorem decode_integer_core (c : Nat) (hc : Src.c__MAX_INTEGER_SHIFT = (c : Int)) (data : Bytes) (N m mask : Nat)
    (hN : 1 ≤ N ∧ N ≤ 8)
    (hm : Py.listGet Src.c__PREFIX_BIT_MAX_NUMBERS (N : Int) = .ok (m : Int)) (hm2 : m = 2 ^ N - 1)
    (hmask : Py.shr 255 (8 - (N : Int)) = .ok (mask : Int)) (hmask2 : mask = 0xFF >>> (8 - N))
    (fuel : Nat) (hf : fuel > data.length) :
    Src.decode_integer fuel data (N : Int) = outToR (castPair (Impl.decodeInt (some c) data N)) := by
  unfold Src.decode_integer
  have h1 : ¬ ((N : Int) < 1 ∨ (N : Int) > 8) := by omega
  simp only [h1, if_false, hm, hmask, bind, Except.bind]
  cases data with
  | nil =>
    simp [Py.getByte, Py.normIndex, Py.tryExcept, Impl.decodeInt, outToR, castPair]
  | cons b0 rest =>
    have hg : Py.getByte (b0 :: rest) 0 = .ok (b0.toNat : Int) := getByte_drop (b0 :: rest) 0 b0 rest rfl
    simp only [hg]
    have hband : Py.band (b0.toNat : Int) (mask : Int) = ((b0.toNat &&& mask : Nat) : Int) := band_ofNat _ _
    rw [hband]
    unfold Impl.decodeInt
    simp only [← hm2, ← hmask2]
    by_cases he : b0.toNat &&& mask = m
    · have he' : ((b0.toNat &&& mask : Nat) : Int) = (m : Int) := by omega
      simp only [he', he, if_true]
      have hw := while1_dec c hc rest (b0 :: rest) 1 m 0 fuel rfl (by simp at hf; omega)
      have := tryExcept_bind_map
        (Src.decode_integer.while1 fuel (b0 :: rest) 1 0 (m : Int) >>= fun r => (.ok (r.1, r.2.1, r.2.2) : Py.R (Int × Int × Int)))
        (fun r => (r.2.2, r.1))
      simp only [bind, Except.bind] at this
      rw [← hw]
      cases hr : Src.decode_integer.while1 fuel (b0 :: rest) 1 0 (m : Int) with
      | ok v => simp [hr, Py.tryExcept, conv, Except.map]
      | error e => by_cases h : e = Py.Exc.indexError <;> simp [hr, Py.tryExcept, conv, Except.map, h]
    · have he' : ¬ (((b0.toNat &&& mask : Nat) : Int) = (m : Int)) := by omega
      simp only [he', he, if_false]
      simp [Py.tryExcept, outToR, castPair]

/-- **Tie (decode_integer).** For every octet string and every Python integer as prefix width, with enough fuel for the
`while True` loop, the translated source returns exactly what the model says: `ValueError` for a width outside 1..8,
otherwise `Impl.decodeInt` with the cap `_MAX_INTEGER_SHIFT` read from the source — value and octets consumed, or
`HPACKDecodingError` (truncated input through the `except IndexError`, or too many continuation octets). -/
theorem decode_integer_tie (data : Bytes) (prefix_bits : Int) :
    ∃ f0, ∀ fuel, fuel ≥ f0 →
      Src.decode_integer fuel data prefix_bits = modelDecodeInteger Src.c__MAX_INTEGER_SHIFT.toNat data prefix_bits := by
  refine ⟨data.length + 1, fun fuel hf => ?_⟩
  unfold modelDecodeInteger
  by_cases hp : prefix_bits < 1 ∨ prefix_bits > 8
  · simp only [Src.decode_integer, hp, if_true, fmtInt_then_valueError]
  · have hN : prefix_bits = ((prefix_bits.toNat : Nat) : Int) := by omega
    have hNr : 1 ≤ prefix_bits.toNat ∧ prefix_bits.toNat ≤ 8 := by omega
    simp only [hp, if_false]
    generalize prefix_bits.toNat = N at hN hNr
    subst hN
    have hc : Src.c__MAX_INTEGER_SHIFT = ((Src.c__MAX_INTEGER_SHIFT.toNat : Nat) : Int) := by decide
    have hcases : N = 1 ∨ N = 2 ∨ N = 3 ∨ N = 4 ∨ N = 5 ∨ N = 6 ∨ N = 7 ∨ N = 8 := by omega
    rcases hcases with h | h | h | h | h | h | h | h <;> subst h <;>
      exact decode_integer_core _ hc data _ _ _ (by decide) rfl (by decide) rfl (by decide) fuel (by omega)

end SrcTie
