import HpackVerif.Proofs.Sound1
namespace RFC
open Impl
variable {own : Bool}

def absE (e : Entry) : E := (e.1.bytes, e.2.bytes)
def absT (t : Table) : List E := t.entries.map absE
def abs (st : DecState) : Ctx := ⟨absT st.table, st.table.maxsize, st.allowed, st.listLimit⟩
def absH (h : Header) : Field := ⟨h.name.bytes, h.value.bytes, h.never⟩

theorem esize_absE (e : Entry) : esize (absE e) = entrySize e := rfl

theorem map_fit (m : Nat) (l : List Entry) : (fit m l).map absE = fitE m (l.map absE) := by
  induction l generalizing m with
  | nil => rfl
  | cons e es ih =>
    by_cases h : entrySize e ≤ m <;> simp [fit, fitE, esize_absE, h, ih]

theorem lookup_none (st : DecState) (i : Nat) (hi : i < 10 ^ maxStrDigits) (h : lookup (abs st) i = none) :
    st.table.getByIndex i = .err .invalidIndex := by
  unfold lookup at h
  unfold Table.getByIndex
  have hf : ¬ i ≥ 10 ^ maxStrDigits := by omega
  simp only [if_neg hf]
  split at h
  · rename_i h0; simp [h0]
  · rename_i h0
    simp only [if_neg h0]
    split at h
    · rename_i hlt
      have : Gen.staticTable[i - 1]? ≠ none := by simp [hlt]
      exact absurd h this
    · rename_i hlt
      simp only [if_neg hlt]
      simp only [abs, absT, List.getElem?_map, Option.map_eq_none_iff] at h
      simp [h]

theorem lookup_some (st : DecState) (i : Nat) (e : E) (h : lookup (abs st) i = some e) :
    ∃ e', st.table.getByIndex i = .ok e' ∧ absE e' = e := by
  unfold lookup at h
  unfold Table.getByIndex
  split at h
  · simp at h
  · rename_i h0
    simp only [if_neg h0]
    split at h
    · rename_i hlt
      simp only [if_pos hlt, staticEntry, h, Option.map_some]
      exact ⟨_, rfl, rfl⟩
    · rename_i hlt
      simp only [if_neg hlt]
      simp only [abs, absT, List.getElem?_map, Option.map_eq_some_iff] at h
      obtain ⟨e', he', rfl⟩ := h
      simp only [he']
      exact ⟨e', rfl, rfl⟩

def StrOK (cap : Option Nat) (c : StrChoice) (s : Bytes) : Prop :=
  IntOK cap 7 (if c.huff then (huffEncode Gen.codes s).length else s.length) c.z

def RepOK (cap : Option Nat) : Rep → Choice → Prop
  | .indexed i, ch => IntOK cap 7 i ch.zi ∧ i < 10 ^ maxStrDigits
  | .literal ix (.idx i) v, ch => 1 ≤ i ∧ IntOK cap ix.pfx i ch.zi ∧ i < 10 ^ maxStrDigits ∧ StrOK cap ch.valueC v
  | .literal _ (.lit n) v, ch => StrOK cap ch.nameC n ∧ StrOK cap ch.valueC v
  | .sizeUpdate n, ch => IntOK cap 5 n ch.zi

/-- first-octet facts of a literal representation, by pattern -/
theorem lit_bits (ix : Indexing) (x : Nat) (hx : x ≤ 2 ^ ix.pfx - 1) :
    ix.pat + x < 256 ∧ (ix.pat + x) &&& 0x80 = 0 ∧
    (((ix.pat + x) &&& 0x40 ≠ 0) ↔ ix = .incremental) ∧
    (ix ≠ .incremental → (ix.pat + x) &&& 0x20 = 0) ∧
    (if ix = .incremental then (ix.pat + x) &&& 0x3F = x else (ix.pat + x) &&& 0x0F = x) ∧
    (ix ≠ .incremental → (((ix.pat + x) &&& 0x10 ≠ 0) ↔ ix = .never)) := by
  cases ix with
  | incremental =>
    have hx' : x < 64 := by simp [Indexing.pfx] at hx; omega
    have := bits_inc ⟨x, hx'⟩
    simp only [Indexing.pat] at *
    refine ⟨by omega, this.1, by simp [this.2.1], by simp, by simp [this.2.2], by simp⟩
  | without =>
    have hx' : x < 16 := by simp [Indexing.pfx] at hx; omega
    have := bits_without ⟨x, hx'⟩
    simp only [Indexing.pat, Nat.zero_add] at *
    refine ⟨by omega, this.1, by simp [this.2.1], fun _ => this.2.2.1, by simp [this.2.2.2.1], fun _ => by simp [this.2.2.2.2]⟩
  | never =>
    have hx' : x < 16 := by simp [Indexing.pfx] at hx; omega
    have := bits_never ⟨x, hx'⟩
    simp only [Indexing.pat] at *
    refine ⟨by omega, this.1, by simp [this.2.1], fun _ => this.2.2.1, by simp [this.2.2.2.1], fun _ => by simp [this.2.2.2.2]⟩

theorem pfx_range (ix : Indexing) : 1 ≤ ix.pfx ∧ ix.pfx ≤ 8 ∧ ix.pat % 2 ^ ix.pfx = 0 ∧ ix.pat < 256 := by
  cases ix <;> simp [Indexing.pfx, Indexing.pat]

theorem len3 (x : UInt8) (A B : Bytes) : (x :: (A ++ B)).length = A.length + 1 + B.length := by
  simp [List.length_append]; omega

/-- the literal branch of the decoder inverts the literal representations -/
theorem decodeLiteral_octets (cap : Option Nat) (st : DecState) (hinv : Inv st.table)
    (ix : Indexing) (nm : NameRef) (v : Bytes) (ch : Choice)
    (hok : RepOK cap (.literal ix nm v) ch) (rest : Bytes) :
    match resolveName (abs st) nm with
    | none => decodeLiteral cap own st.table (reprOctets (.literal ix nm v) ch ++ rest) (decide (ix = .incremental))
                = .err .invalidIndex
    | some name => ∃ h t', decodeLiteral cap own st.table (reprOctets (.literal ix nm v) ch ++ rest)
                (decide (ix = .incremental)) = .ok (h, (reprOctets (.literal ix nm v) ch).length, t') ∧
        absH h = ⟨name, v, ix == .never⟩ ∧ Inv t' ∧ t'.maxsize = st.table.maxsize ∧
        absT t' = (if ix = .incremental then fitE st.table.maxsize ((name, v) :: absT st.table) else absT st.table) := by
  obtain ⟨p1, p8, pmod, p256⟩ := pfx_range ix
  cases nm with
  | idx i =>
    obtain ⟨hi1, hiok, hismall, hvok⟩ := hok
    simp only [reprOctets]
    obtain ⟨tl, htl⟩ := intOctets_cons ix.pfx ix.pat i ch.zi
    have hple := prefixVal_le ix.pfx i
    obtain ⟨b256, b80, b40, b20, bval, b10⟩ := lit_bits ix (prefixVal ix.pfx i) hple
    have hpne : prefixVal ix.pfx i ≠ 0 := by
      rw [Ne, prefixVal_eq_zero _ _ p1]; omega
    have hdi := decodeInt_intOctets cap ix.pfx p1 p8 ix.pat i ch.zi pmod p256
      (strOctets ch.valueC v ++ rest) hiok
    rw [List.append_assoc]
    have hdata : intOctets ix.pfx ix.pat i ch.zi ++ (strOctets ch.valueC v ++ rest)
        = UInt8.ofNat (ix.pat + prefixVal ix.pfx i) :: (tl ++ (strOctets ch.valueC v ++ rest)) := by rw [htl]; rfl
    unfold decodeLiteral
    rw [hdata]
    simp only
    rw [← hdata]
    have hb := toNat_ofNat_lt b256
    -- the (indexedName, nameLen, notIndexable) triple
    have htrip : (if decide (ix = .incremental) = true
          then ((UInt8.ofNat (ix.pat + prefixVal ix.pfx i)).toNat &&& 0x3F, 6, false)
          else ((UInt8.ofNat (ix.pat + prefixVal ix.pfx i)).toNat &&& 0x0F, 4,
                decide ((UInt8.ofNat (ix.pat + prefixVal ix.pfx i)).toNat &&& 0x10 ≠ 0)))
        = (prefixVal ix.pfx i, ix.pfx, ix == .never) := by
      rw [hb]
      by_cases hinc : ix = .incremental
      · subst hinc; simp only [if_true, Indexing.pfx] at bval ⊢; simp [bval]
      · simp only [if_neg hinc] at bval
        have h10 := b10 hinc
        simp only [hinc, decide_false, Bool.false_eq_true, if_false, bval]
        cases ix <;> simp_all [Indexing.pfx]
    simp only [htrip, if_pos hpne, hdi, bind, resolveName]
    cases hl : lookup (abs st) i with
    | none =>
      simp only [Option.map_none]
      rw [lookup_none st i hismall hl]
    | some e =>
      obtain ⟨e', hg, he'⟩ := lookup_some st i e hl
      simp only [Option.map_some, hg, pure]
      have hdrop : List.drop (intOctets ix.pfx ix.pat i ch.zi).length
          (intOctets ix.pfx ix.pat i ch.zi ++ (strOctets ch.valueC v ++ rest)) = strOctets ch.valueC v ++ rest := by simp
      rw [hdrop, readString_strOctets cap ch.valueC v rest hvok]
      simp only
      rw [List.length_append]
      by_cases hinc : ix = .incremental
      · simp only [hinc, decide_true, if_true]
        obtain ⟨t', ha, hent, hmax, hinv'⟩ := add_spec st.table e'.1 ⟨v, !ch.valueC.huff && !own⟩ hinv
        simp only [ha]
        refine ⟨_, t', rfl, ?_, hinv', hmax, ?_⟩
        · simp [absH, ← he', absE]
        · simp only [absT, hent, map_fit, List.map_cons, ← he', absE]
      · simp only [hinc, decide_false, Bool.false_eq_true, if_false]
        refine ⟨_, st.table, rfl, ?_, hinv, rfl, rfl⟩
        simp [absH, ← he', absE]
  | lit n =>
    obtain ⟨hnok, hvok⟩ := hok
    simp only [reprOctets]
    obtain ⟨b256, b80, b40, b20, bval, b10⟩ := lit_bits ix 0 (by omega)
    simp only [Nat.add_zero] at b256 b80 b40 b20 bval b10
    unfold decodeLiteral
    simp only [List.cons_append]
    have hb := toNat_ofNat_lt b256
    have htrip : (if decide (ix = .incremental) = true
          then ((UInt8.ofNat ix.pat).toNat &&& 0x3F, 6, false)
          else ((UInt8.ofNat ix.pat).toNat &&& 0x0F, 4, decide ((UInt8.ofNat ix.pat).toNat &&& 0x10 ≠ 0)))
        = (0, ix.pfx, ix == .never) := by
      rw [hb]
      by_cases hinc : ix = .incremental
      · subst hinc; simp only [if_true, Indexing.pfx] at bval ⊢; simp [bval]
      · simp only [if_neg hinc] at bval
        have h10 := b10 hinc
        simp only [hinc, decide_false, Bool.false_eq_true, if_false, bval]
        cases ix <;> simp_all [Indexing.pfx]
    simp only [htrip, ne_eq, not_true_eq_false, if_false, bind, pure, resolveName]
    rw [List.append_assoc, readString_strOctets cap ch.nameC n _ hnok]
    simp only
    have hdrop : List.drop (strOctets ch.nameC n).length
        (strOctets ch.nameC n ++ (strOctets ch.valueC v ++ rest)) = strOctets ch.valueC v ++ rest := by simp
    rw [hdrop, readString_strOctets cap ch.valueC v rest hvok]
    simp only
    rw [len3]
    by_cases hinc : ix = .incremental
    · simp only [hinc, decide_true, if_true]
      obtain ⟨t', ha, hent, hmax, hinv'⟩ := add_spec st.table ⟨n, !ch.nameC.huff && !own⟩ ⟨v, !ch.valueC.huff && !own⟩ hinv
      simp only [ha]
      refine ⟨_, t', rfl, ?_, hinv', hmax, ?_⟩
      · simp [absH]
      · simp only [absT, hent, map_fit, List.map_cons, absE]
    · simp only [hinc, decide_false, Bool.false_eq_true, if_false]
      refine ⟨_, st.table, rfl, ?_, hinv, rfl, rfl⟩
      simp [absH]

end RFC
