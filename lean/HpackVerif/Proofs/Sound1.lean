import HpackVerif.RFC.Sem
import HpackVerif.Proofs.IntProof
import HpackVerif.Proofs.HuffEncProof
import HpackVerif.Proofs.DecProof2
namespace RFC
open Impl
variable {own : Bool}

/-- the peer's redundant zero digits stay within the implementation limit -/
def IntOK (cap : Option Nat) (N v z : Nat) : Prop :=
  ∀ c, cap = some c → 2 ^ N - 1 ≤ v → 7 * ((digits (v - (2 ^ N - 1))).length + z - 1) ≤ c

def prefixVal (N v : Nat) : Nat := if v < 2 ^ N - 1 then v else 2 ^ N - 1

theorem intOctets_cons (N hi v z : Nat) :
    ∃ tl, intOctets N hi v z = UInt8.ofNat (hi + prefixVal N v) :: tl := by
  unfold intOctets prefixVal
  split
  · exact ⟨[], rfl⟩
  · exact ⟨_, rfl⟩

theorem prefixVal_le (N v : Nat) : prefixVal N v ≤ 2 ^ N - 1 := by
  unfold prefixVal; split <;> omega

theorem prefixVal_eq_zero (N v : Nat) (hN : 1 ≤ N) : prefixVal N v = 0 ↔ v = 0 := by
  unfold prefixVal
  have : 2 ≤ 2 ^ N := by
    calc 2 = 2 ^ 1 := by decide
      _ ≤ 2 ^ N := Nat.pow_le_pow_right (by omega) hN
  split <;> omega

theorem toNat_ofNat_lt {x : Nat} (h : x < 256) : (UInt8.ofNat x).toNat = x := by
  rw [UInt8.toNat_ofNat']; exact Nat.mod_eq_of_lt h

/-! first-octet bit facts (finite, by `decide`) -/
theorem bits_idx : ∀ x : Fin 128, (0x80 + x.val) &&& 0x80 ≠ 0 := by decide
theorem bits_inc : ∀ x : Fin 64, (0x40 + x.val) &&& 0x80 = 0 ∧ (0x40 + x.val) &&& 0x40 ≠ 0 ∧
    (0x40 + x.val) &&& 0x3F = x.val := by decide
theorem bits_without : ∀ x : Fin 16, x.val &&& 0x80 = 0 ∧ x.val &&& 0x40 = 0 ∧
    x.val &&& 0x20 = 0 ∧ x.val &&& 0x0F = x.val ∧ x.val &&& 0x10 = 0 := by decide
theorem bits_never : ∀ x : Fin 16, (0x10 + x.val) &&& 0x80 = 0 ∧ (0x10 + x.val) &&& 0x40 = 0 ∧
    (0x10 + x.val) &&& 0x20 = 0 ∧ (0x10 + x.val) &&& 0x0F = x.val ∧ (0x10 + x.val) &&& 0x10 ≠ 0 := by decide
theorem bits_upd : ∀ x : Fin 32, (0x20 + x.val) &&& 0x80 = 0 ∧ (0x20 + x.val) &&& 0x40 = 0 ∧
    (0x20 + x.val) &&& 0x20 ≠ 0 := by decide
theorem bits_str : ∀ x : Fin 128, (0x80 + x.val) &&& 0x80 ≠ 0 ∧ (0 + x.val) &&& 0x80 = 0 := by decide

theorem map_ofNat_toNat (s : Bytes) : (s.map (·.toNat)).map UInt8.ofNat = s := by
  induction s with
  | nil => rfl
  | cons b bs ih =>
    simp only [List.map_cons, ih]
    congr 1
    apply UInt8.toNat_inj.mp
    exact toNat_ofNat_lt b.toNat_lt

/-- reading back a string literal, Huffman-coded or not, whatever follows it -/
theorem readString_strOctets (cap : Option Nat) (c : StrChoice) (s : Bytes) (rest : Bytes)
    (hok : IntOK cap 7 (if c.huff then (huffEncode Gen.codes s).length else s.length) c.z) :
    readString cap own (strOctets c s ++ rest) = .ok (⟨s, !c.huff && !own⟩, (strOctets c s).length) := by
  unfold strOctets
  cases hh : c.huff with
  | true =>
    simp only [hh, if_true] at hok ⊢
    generalize hp : huffEncode Gen.codes s = payload at *
    have hdi := decodeInt_intOctets cap 7 (by omega) (by omega) 0x80 payload.length c.z (by decide) (by decide)
      (payload ++ rest) hok
    obtain ⟨tl, htl⟩ := intOctets_cons 7 0x80 payload.length c.z
    unfold readString
    rw [List.append_assoc, hdi]
    simp only [bind]
    have hdrop : List.take payload.length (List.drop (intOctets 7 0x80 payload.length c.z).length
        (intOctets 7 0x80 payload.length c.z ++ (payload ++ rest))) = payload := by simp
    rw [hdrop]
    simp only [ne_eq, not_true_eq_false, if_false]
    rw [htl]
    simp only [List.cons_append]
    have hle := prefixVal_le 7 payload.length
    have hb := toNat_ofNat_lt (show 0x80 + prefixVal 7 payload.length < 256 by
      have : (2:Nat) ^ 7 - 1 = 127 := by decide
      omega)
    have hbit := (bits_str ⟨prefixVal 7 payload.length, by
      have : (2:Nat) ^ 7 - 1 = 127 := by decide
      omega⟩).1
    simp only at hbit
    rw [hb, if_pos hbit]
    have hrt := gen_huff_roundtrip s
    rw [hp] at hrt
    have hl : (intOctets 7 0x80 payload.length c.z).length = tl.length + 1 := by rw [htl]; simp
    simp only [huffDecodeBuf, hrt, map_ofNat_toNat, pure, Bool.not_true, Bool.false_and, hl, List.length_cons, List.length_append]
    congr 2; omega
  | false =>
    simp only [hh, Bool.false_eq_true, if_false] at hok ⊢
    have hdi := decodeInt_intOctets cap 7 (by omega) (by omega) 0 s.length c.z (by decide) (by decide)
      (s ++ rest) hok
    obtain ⟨tl, htl⟩ := intOctets_cons 7 0 s.length c.z
    unfold readString
    rw [List.append_assoc, hdi]
    simp only [bind]
    have hdrop : List.take s.length (List.drop (intOctets 7 0 s.length c.z).length
        (intOctets 7 0 s.length c.z ++ (s ++ rest))) = s := by simp
    rw [hdrop]
    simp only [ne_eq, not_true_eq_false, if_false]
    rw [htl]
    simp only [List.cons_append]
    have hle := prefixVal_le 7 s.length
    have h127 : (2:Nat) ^ 7 - 1 = 127 := by decide
    have hb := toNat_ofNat_lt (show 0 + prefixVal 7 s.length < 256 by omega)
    have hbit := (bits_str ⟨prefixVal 7 s.length, by omega⟩).2
    simp only at hbit
    rw [hb]
    have : ¬ (0 + prefixVal 7 s.length) &&& 0x80 ≠ 0 := fun h => h hbit
    rw [if_neg this]
    have hl : (intOctets 7 0 s.length c.z).length = tl.length + 1 := by rw [htl]; simp
    simp only [pure, Bool.not_false, Bool.true_and, hl, List.length_cons, List.length_append]
    congr 2; omega

end RFC
