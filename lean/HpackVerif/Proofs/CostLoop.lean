import HpackVerif.Proofs.Cost
import HpackVerif.Proofs.InvAny
/-! C16: a work model of the whole `Decoder.decode` loop and its linear bound.

Per loop iteration the Python code (i) decodes at most three prefix integers (index or name length,
value length; each costs at most `intConst c` units by `decodeIntCost_capped` — this is where the
quadratic behaviour D1 lived), (ii) touches every payload octet of the field a bounded number of times
(`bytes(view)`, or `decode_huffman`: two table look-ups per octet) — all payload octets lie inside the
span the field consumes, (iii) pops `evicted` entries from the table, (iv) does a constant amount of
bookkeeping; slicing `data_mem[i:]` is O(1) because the argument is a memoryview (the run-time probe
checks that no bytes are copied by slicing). A field that fails may have looked at the whole remaining
input once.  After the loop the returned headers are converted (`bytes(...)`, `.decode`): one unit per
octet of the returned list.  -/
namespace Impl.Cost
open Impl
variable {own : Bool}

def fieldOverhead (c : Nat) : Nat := 3 * intConst c + 8

/-- entries popped by one iteration (an insertion adds one entry first) -/
def evicted (st st' : DecState) : Nat := st.table.entries.length + 1 - st'.table.entries.length

/-- work of one iteration of the `while` loop -/
def fieldCost (c : Nat) (own : Bool) (st : DecState) (data : Bytes) (seen : Bool) : Nat :=
  match decodeField (some c) own st data seen with
  | .ok (_, consumed, st') => fieldOverhead c + consumed + evicted st st'
  | _ => fieldOverhead c + data.length

/-- work of the loop, following the control flow of `decodeLoop` -/
def loopCost (c : Nat) (own : Bool) : Nat → DecState → Bytes → List Header → Nat → Nat
  | 0, _, _, _, _ => 0
  | fuel + 1, st, data, headers, infl =>
    match data with
    | [] => 1
    | _ :: _ =>
      fieldCost c own st data (!headers.isEmpty) +
      match decodeField (some c) own st data (!headers.isEmpty) with
      | .ok (some h, consumed, st') =>
        if infl + entrySize (h.name, h.value) > st'.listLimit then 0
        else loopCost c own fuel st' (data.drop consumed) (h :: headers) (infl + entrySize (h.name, h.value))
      | .ok (none, consumed, st') => loopCost c own fuel st' (data.drop consumed) headers infl
      | _ => 0

/-- work of one `decode` call: the loop plus the conversion of what is returned -/
def decodeCost (c : Nat) (own : Bool) (st : DecState) (data : Bytes) : Nat :=
  loopCost c own (data.length + 1) st data [] 0 +
  match (decode (some c) own st data).1 with
  | .ok out => hsize out
  | _ => 0

theorem fit_length_le (m : Nat) (l : List Entry) : (fit m l).length ≤ l.length := by
  induction l generalizing m with
  | nil => simp [fit]
  | cons e es ih =>
    simp only [fit]; split
    · simp only [List.length_cons]; have := ih (m - entrySize e); omega
    · simp

/-- a relation between the table before and after one field that holds for "unchanged", for the
    result of `add` and for the result of `setMaxsize` holds for `decodeField` -/
theorem decodeLiteral_rel (R : Table → Table → Prop) (hrefl : ∀ t, R t t)
    (hadd : ∀ t n v t', Inv t → t.add n v = .ok t' → R t t')
    (cap : Option Nat) (t : Table) (hinv : Inv t) (data : Bytes) (si : Bool)
    {h : Header} {k : Nat} {t' : Table} (hd : decodeLiteral cap own t data si = .ok (h, k, t')) : R t t' := by
  unfold decodeLiteral at hd
  cases data with
  | nil => simp at hd
  | cons b0 tail =>
    dsimp only at hd
    generalize (if si = true then (b0.toNat &&& 0x3F, 6, false)
        else (b0.toNat &&& 0x0F, 4, decide (b0.toNat &&& 0x10 ≠ 0))) = trip at hd
    obtain ⟨indexedName, nameLen, notIndexable⟩ := trip
    dsimp only at hd
    have key : ∀ (name : PyBuf) (c1 : Nat) (rest : Bytes),
        (do let (value, c2) ← readString cap own rest
            let t' ← if si then t.add name value else pure t
            pure ((⟨name, value, notIndexable⟩ : Header), c1 + c2, t') : Out (Header × Nat × Table))
          = .ok (h, k, t') → R t t' := by
      intro name c1 rest hh
      cases hr : readString cap own rest with
      | err e => simp [hr, bind] at hh
      | esc x => simp [hr, bind] at hh
      | ok r =>
        obtain ⟨value, c2⟩ := r
        simp only [hr, bind, pure] at hh
        cases si with
        | true =>
          simp only [if_true] at hh
          obtain ⟨t2, ha, _, _, _⟩ := add_spec t name value hinv
          simp only [ha, Out.ok.injEq, Prod.mk.injEq] at hh
          obtain ⟨_, _, rfl⟩ := hh; exact hadd t name value t2 hinv ha
        | false =>
          simp only [Bool.false_eq_true, if_false, Out.ok.injEq, Prod.mk.injEq] at hh
          obtain ⟨_, _, rfl⟩ := hh; exact hrefl t
    by_cases hin : indexedName ≠ 0
    · rw [if_pos hin] at hd
      cases hdi : decodeInt cap (b0 :: tail) nameLen with
      | err e => simp [hdi, bind] at hd
      | esc x => simp [hdi, bind] at hd
      | ok r =>
        simp only [hdi, bind, pure] at hd
        cases hg : t.getByIndex r.1 with
        | err e => simp [hg] at hd
        | esc x => simp [hg] at hd
        | ok ent =>
          simp only [hg] at hd
          exact key ent.1 r.2 _ (by simpa [bind, pure] using hd)
    · rw [if_neg hin] at hd
      cases hr1 : readString cap own tail with
      | err e => simp [hr1, bind] at hd
      | esc x => simp [hr1, bind] at hd
      | ok r1 =>
        simp only [hr1, bind, pure] at hd
        exact key r1.1 (r1.2 + 1) _ (by simpa [bind, pure] using hd)

theorem decodeField_rel (R : Table → Table → Prop) (hrefl : ∀ t, R t t)
    (hadd : ∀ t n v t', Inv t → t.add n v = .ok t' → R t t')
    (hset : ∀ t m t', Inv t → t.setMaxsize m = .ok t' → R t t')
    (cap : Option Nat) (st : DecState) (hinv : Inv st.table) (data : Bytes) (seen : Bool)
    {oh : Option Header} {k : Nat} {st' : DecState} (h : decodeField cap own st data seen = .ok (oh, k, st')) :
    R st.table st'.table := by
  unfold decodeField at h
  cases data with
  | nil => simp at h
  | cons b0 rest =>
    dsimp only at h
    split at h
    · cases hd : decodeInt cap (b0 :: rest) 7 with
      | ok r =>
        simp only [hd, bind, pure] at h
        cases hg : st.table.getByIndex r.1 with
        | ok e => simp only [hg, Out.ok.injEq, Prod.mk.injEq] at h; obtain ⟨_, _, rfl⟩ := h; exact hrefl _
        | err e => simp [hg] at h
        | esc x => simp [hg] at h
      | err e => simp [hd, bind] at h
      | esc x => simp [hd, bind] at h
    · split at h
      · generalize decide (b0.toNat &&& 0x40 ≠ 0) = si at h
        cases hl : decodeLiteral cap own st.table (b0 :: rest) si with
        | ok r =>
          simp only [hl, bind, pure, Out.ok.injEq, Prod.mk.injEq] at h
          obtain ⟨_, _, rfl⟩ := h
          obtain ⟨hh, kk, tt⟩ := r
          exact decodeLiteral_rel (own := own) R hrefl hadd cap st.table hinv _ si hl
        | err e => simp [hl, bind] at h
        | esc x => simp [hl, bind] at h
      · split at h
        · simp at h
        · cases hd : decodeInt cap (b0 :: rest) 5 with
          | ok r =>
            simp only [hd, bind, pure] at h
            split at h
            · simp at h
            · cases hs : st.table.setMaxsize r.1 with
              | ok t' =>
                simp only [hs, Out.ok.injEq, Prod.mk.injEq] at h; obtain ⟨_, _, rfl⟩ := h
                exact hset _ _ _ hinv hs
              | err e => simp [hs] at h
              | esc x => simp [hs] at h
          | err e => simp [hd, bind] at h
          | esc x => simp [hd, bind] at h

/-- one field leaves at most one more entry in the table than it found -/
theorem decodeField_entries (cap : Option Nat) (st : DecState) (hinv : Inv st.table) (data : Bytes) (seen : Bool)
    {oh : Option Header} {k : Nat} {st' : DecState} (h : decodeField cap own st data seen = .ok (oh, k, st')) :
    st'.table.entries.length ≤ st.table.entries.length + 1 := by
  apply decodeField_rel (own := own) (fun t t' => t'.entries.length ≤ t.entries.length + 1) (fun t => by omega)
    ?_ ?_ cap st hinv data seen h
  · intro t n v t' hi ha
    obtain ⟨t2, h2, he, _, _⟩ := add_spec t n v hi
    rw [ha] at h2; cases h2
    rw [he]
    have := fit_length_le t.maxsize ((n, v) :: t.entries)
    simpa using this
  · intro t m t' hi hs
    obtain ⟨t2, h2, he, _, _, _⟩ := setMaxsize_spec t m hi
    rw [hs] at h2; cases h2
    rw [he]
    have := fit_length_le m t.entries
    omega

/-- **the loop is linear**: work ≤ (overhead + 2) · |data| + entries in the table + 1 -/
theorem loopCost_linear (c : Nat) (hc : CapOK c) (fuel : Nat) (st : DecState) (hinv : Inv st.table) (data : Bytes)
    (hs : List Header) (infl : Nat) :
    loopCost c own fuel st data hs infl ≤ (fieldOverhead c + 2) * data.length + st.table.entries.length + 1 := by
  induction fuel generalizing st data hs infl with
  | zero => simp [loopCost]
  | succ fuel ih =>
    cases data with
    | nil => simp [loopCost]
    | cons b0 rest =>
      unfold loopCost
      dsimp only
      generalize hK : fieldOverhead c = FO
      have hL : (b0 :: rest).length ≥ 1 := by simp
      generalize hd : (b0 :: rest) = data at hL ⊢
      have hne : data ≠ [] := by rw [← hd]; simp
      have hsafe := (decodeField_safe (own := own) c hc st hinv data hne (!hs.isEmpty)).2
      unfold fieldCost
      rw [hK]
      cases hf : decodeField (some c) own st data (!hs.isEmpty) with
      | err e =>
        simp only
        have : FO ≤ FO * data.length := Nat.le_mul_of_pos_right _ (by omega)
        rw [Nat.add_mul]
        omega
      | esc x =>
        simp only
        have : FO ≤ FO * data.length := Nat.le_mul_of_pos_right _ (by omega)
        rw [Nat.add_mul]
        omega
      | ok r =>
        obtain ⟨oh, consumed, st'⟩ := r
        obtain ⟨hk1, hk2, hinv', _, _⟩ := hsafe oh consumed st' hf
        have hent := decodeField_entries (own := own) (some c) st hinv data (!hs.isEmpty) hf
        have hdrop : (data.drop consumed).length = data.length - consumed := by simp
        -- arithmetic skeleton shared by the two continuing branches
        have arith : ∀ rec : Nat, rec ≤ (FO + 2) * (data.length - consumed) + st'.table.entries.length + 1 →
            FO + consumed + evicted st st' + rec ≤ (FO + 2) * data.length + st.table.entries.length + 1 := by
          intro rec hrec
          unfold evicted
          have e1 : (FO + 2) * (data.length - consumed) = (FO + 2) * data.length - (FO + 2) * consumed := Nat.mul_sub ..
          have e2 : (FO + 2) * consumed ≤ (FO + 2) * data.length := Nat.mul_le_mul_left _ hk2
          have e3 : (FO + 2) * consumed = FO * consumed + 2 * consumed := Nat.add_mul ..
          have e4 : FO ≤ FO * consumed := Nat.le_mul_of_pos_right _ (by omega)
          omega
        simp only
        cases oh with
        | none =>
          simp only
          have := ih st' hinv' (data.drop consumed) hs infl
          rw [hdrop, hK] at this
          exact arith _ this
        | some h =>
          simp only
          split
          · exact arith 0 (by omega)
          · have := ih st' hinv' (data.drop consumed) (h :: hs) (infl + entrySize (h.name, h.value))
            rw [hdrop, hK] at this
            exact arith _ this

/-- **C16 (work model)**: the work of one `decode` call is at most linear in the length of the block,
    for fixed limits: `(3·intConst c + 10) · |data| + (entries in the table) + (list limit) + 1` -/
theorem decodeCost_linear (c : Nat) (hc : CapOK c) (st : DecState) (hinv : Inv st.table) (data : Bytes) :
    decodeCost c own st data ≤ (fieldOverhead c + 2) * data.length + st.table.entries.length + st.listLimit + 1 := by
  unfold decodeCost
  have h1 := loopCost_linear (own := own) c hc (data.length + 1) st hinv data [] 0
  cases hd : (decode (some c) own st data).1 with
  | ok out =>
    have := (decode_limits (own := own) (some c) st data hd).1
    simp only
    omega
  | err e => simp only; omega
  | esc x => simp only; omega

end Impl.Cost
