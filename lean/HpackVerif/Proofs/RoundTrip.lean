import HpackVerif.Proofs.EncProof
namespace RFC
open Impl
variable {own : Bool}

/-- the per-header loop of Encoder.encode (the local `go`), as a standalone function -/
def encLoop (strict huff : Bool) : EncState → Bytes → List (Bytes × Bytes × Bool) → Out (Bytes × EncState)
  | e, acc, [] => pure (acc, e)
  | e, acc, (n, v, s) :: rest => do
    let (b, e') ← e.add strict n v s huff
    encLoop strict huff e' (acc ++ b) rest

theorem encode_go_eq (strict huff : Bool) (e : EncState) (acc : Bytes) (hs : List (Bytes × Bytes × Bool)) :
    EncState.encode.go strict huff e acc hs = encLoop strict huff e acc hs := by
  induction hs generalizing e acc with
  | nil => rfl
  | cons h rest ih =>
    obtain ⟨n, v, s⟩ := h
    simp only [EncState.encode.go, encLoop, bind]
    cases e.add strict n v s huff with
    | ok r => simp only; exact ih _ _
    | err x => rfl
    | esc x => rfl

/-- the representations the encoder emits for a header list, with the states it passes through -/
def encReps (strict huff : Bool) : EncState → List (Bytes × Bytes × Bool) → List (Rep × Choice)
  | _, [] => []
  | e, (n, v, s) :: rest =>
    match e.add strict n v s huff with
    | .ok (_, e') => (chosenRep strict e.table n v s, ch0 huff) :: encReps strict huff e' rest
    | _ => []

def listSize (hs : List (Bytes × Bytes × Bool)) : Nat := (hs.map fun h => esize (h.1, h.2.1)).sum

def peerCtx (e : EncState) (allowed limit : Nat) : Ctx := ⟨absT e.table, e.table.maxsize, allowed, limit⟩

/-- C03 (block, no pending size change): the loop emits `blockOctets` of `encReps`, and a peer in sync
    interprets those representations as exactly the header list, ending in sync again -/
theorem encLoop_emits (strict huff : Bool) (e : EncState) (hinv : Inv e.table) (acc : Bytes)
    (hs : List (Bytes × Bytes × Bool)) (allowed limit : Nat) (fs : List Field) (infl : Nat)
    (hlim : infl + listSize hs ≤ limit) (hmax : e.table.maxsize ≤ allowed) :
    ∃ e', encLoop strict huff e acc hs = .ok (acc ++ blockOctets (encReps strict huff e hs), e') ∧ Inv e'.table ∧
      e'.changes = e.changes ∧ e'.table.maxsize = e.table.maxsize ∧ e'.table.resized = e.table.resized ∧
      ∃ fs', interpLoop (peerCtx e allowed limit) ((encReps strict huff e hs).map (·.1)) fs infl
          = (.ok (fs.reverse ++ fs'), peerCtx e' allowed limit) ∧
        fs'.map (fun f => (f.name, f.value)) = hs.map (fun h => (h.1, h.2.1)) := by
  induction hs generalizing e acc fs infl with
  | nil =>
    refine ⟨e, by simp [encLoop, encReps, blockOctets, pure], hinv, rfl, rfl, rfl, [], ?_, rfl⟩
    simp only [encReps, List.map_nil, interpLoop, peerCtx]
    have : ¬ e.table.maxsize > allowed := by omega
    rw [if_neg this]; simp
  | cons h rest ih =>
    obtain ⟨n, v, s⟩ := h
    obtain ⟨bytes, e1, hadd, hbytes, hinv1, hch1, hmax1, hres1, _, hint⟩ := add_emits strict e hinv n v s huff
    obtain ⟨nv, hI⟩ := hint allowed limit (!fs.isEmpty)
    have hsz : listSize ((n, v, s) :: rest) = esize (n, v) + listSize rest := by simp [listSize]
    have hlim1 : (infl + esize (n, v)) + listSize rest ≤ limit := by rw [hsz] at hlim; omega
    obtain ⟨e', hloop, hinv', hch', hmax', hres', fs', hI', hfs'⟩ :=
      ih e1 hinv1 (acc ++ bytes) (⟨n, v, nv⟩ :: fs) (infl + esize (n, v)) hlim1 (by omega)
    refine ⟨e', ?_, hinv', by rw [hch', hch1], by rw [hmax', hmax1], by rw [hres', hres1],
      ⟨n, v, nv⟩ :: fs', ?_, by simp [hfs']⟩
    · simp only [encLoop, encReps, hadd, bind, blockOctets]
      rw [hloop, hbytes]; simp [List.append_assoc]
    · simp only [encReps, hadd, List.map_cons, interpLoop]
      have hI2 : interpField (peerCtx e allowed limit) (!fs.isEmpty) (chosenRep strict e.table n v s)
          = .ok (some ⟨n, v, nv⟩, peerCtx e1 allowed limit) := by
        rw [peerCtx, hI, peerCtx, hmax1]
      rw [hI2]
      have hnot : ¬ infl + esize (n, v) > (peerCtx e1 allowed limit).listLimit := by
        simp only [peerCtx]; rw [hsz] at hlim; omega
      simp only [if_neg hnot]
      rw [hI']; simp

/-- decoder state in sync with an encoder -/
def InSync (e : EncState) (st : DecState) : Prop :=
  absT e.table = absT st.table ∧ e.table.maxsize = st.table.maxsize

/-- C01/C10 (prototype, one block, no pending size change): whatever header list is encoded, with or
    without Huffman, sensitive or not, a decoder in sync returns exactly that list and is in sync again -/
theorem roundtrip_block (strict : Bool) (cap : Option Nat) (e : EncState) (st : DecState) (hinvE : Inv e.table) (hinvD : Inv st.table)
    (hsync : InSync e st) (hres : e.table.resized = false) (hs : List (Bytes × Bytes × Bool)) (huff : Bool)
    (hlim : listSize hs ≤ st.listLimit) (hmax : st.table.maxsize ≤ st.allowed)
    (hok : ∀ rc ∈ encReps strict huff e hs, RepOK cap rc.1 rc.2) :
    ∃ bytes e', e.encode strict hs huff = .ok (bytes, e') ∧ Inv e'.table ∧
      ∃ hs', (decode cap own st bytes).1 = .ok hs' ∧
        hs'.map (fun h => (h.name.bytes, h.value.bytes)) = hs.map (fun h => (h.1, h.2.1)) ∧
        InSync e' (decode cap own st bytes).2 := by
  obtain ⟨e', hloop, hinv', _, hmax', _, fs', hI, hfs'⟩ :=
    encLoop_emits strict huff e hinvE [] hs st.allowed st.listLimit [] 0 (by omega) (by rw [hsync.2]; exact hmax)
  have henc : e.encode strict hs huff = .ok (blockOctets (encReps strict huff e hs), e') := by
    unfold EncState.encode
    simp only [hres, Bool.false_eq_true, if_false, bind, pure]
    rw [encode_go_eq, hloop]; simp
  refine ⟨_, e', henc, hinv', ?_⟩
  have hctx : peerCtx e st.allowed st.listLimit = abs st := by
    simp only [peerCtx, abs, hsync.1, hsync.2]
  have hdec := decode_blockOctets (own := own) cap st hinvD (encReps strict huff e hs) hok
  rw [interp, ← hctx, hI] at hdec
  obtain ⟨⟨hs', hd1, hd2⟩, hd3⟩ := hdec
  refine ⟨hs', hd1, ?_, ?_⟩
  · have : hs'.map (fun h => (h.name.bytes, h.value.bytes)) = (hs'.map absH).map (fun f => (f.name, f.value)) := by
      simp [absH]
    rw [this, hd2]; simpa using hfs'
  · simp only [peerCtx, abs] at hd3
    have h1 : absT (decode cap own st (blockOctets (encReps strict huff e hs))).2.table = absT e'.table := by
      have := congrArg Ctx.dyn hd3; simpa using this
    have h2 : (decode cap own st (blockOctets (encReps strict huff e hs))).2.table.maxsize = e'.table.maxsize := by
      have := congrArg Ctx.max hd3; simpa using this
    exact ⟨h1.symm, h2.symm⟩

end RFC
#print axioms RFC.roundtrip_block
