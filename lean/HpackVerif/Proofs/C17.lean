import HpackVerif.Proofs.Complete4
import HpackVerif.Proofs.InvAny
namespace RFC
open Impl

def Owned (e : Entry) : Prop := e.1.view = false ∧ e.2.view = false
def AllOwned (t : Table) : Prop := ∀ e ∈ t.entries, Owned e
def HOwned (h : Header) : Prop := h.name.view = false ∧ h.value.view = false

theorem fit_subset (m : Nat) (l : List Entry) : ∀ e ∈ fit m l, e ∈ l := by
  induction l generalizing m with
  | nil => simp [fit]
  | cons x xs ih =>
    intro e he
    simp only [fit] at he
    split at he
    · simp only [List.mem_cons] at he ⊢
      rcases he with rfl | he
      · exact Or.inl rfl
      · exact Or.inr (ih _ e he)
    · simp at he

theorem add_owned (t : Table) (hinv : Inv t) (ho : AllOwned t) (n v : PyBuf) (hn : n.view = false) (hv : v.view = false)
    {t' : Table} (h : t.add n v = .ok t') : AllOwned t' := by
  obtain ⟨t2, h2, hent, _, _⟩ := add_spec t n v hinv
  rw [h] at h2; simp only [Out.ok.injEq] at h2; subst h2
  intro e he
  rw [hent] at he
  have := fit_subset _ _ e he
  simp only [List.mem_cons] at this
  rcases this with rfl | hm
  · exact ⟨hn, hv⟩
  · exact ho e hm

theorem setMaxsize_owned (t : Table) (hinv : Inv t) (ho : AllOwned t) (m : Nat) {t' : Table}
    (h : t.setMaxsize m = .ok t') : AllOwned t' := by
  obtain ⟨t2, h2, hent, _, _, _⟩ := setMaxsize_spec t m hinv
  rw [h] at h2; simp only [Out.ok.injEq] at h2; subst h2
  intro e he
  rw [hent] at he
  exact ho e (fit_subset _ _ e he)

theorem getByIndex_owned (t : Table) (ho : AllOwned t) (i : Nat) {e : Entry} (h : t.getByIndex i = .ok e) : Owned e := by
  unfold Table.getByIndex at h
  dsimp only at h
  split at h
  · split at h <;> simp at h
  · split at h
    · cases hs : staticEntry (i - 1) with
      | none => simp [hs] at h
      | some e' =>
        simp only [hs, Out.ok.injEq] at h; subst h
        simp only [staticEntry, Option.map_eq_some_iff] at hs
        obtain ⟨a, _, rfl⟩ := hs
        exact ⟨rfl, rfl⟩
    · cases hd : t.entries[i - 1 - Gen.staticTable.length]? with
      | none => simp only [hd] at h; split at h <;> simp at h
      | some e' =>
        simp only [hd, Out.ok.injEq] at h; subst h
        exact ho _ (List.mem_of_getElem? hd)

/-- with the D2 repair (`own = true`) every string `readString` returns is an owned copy -/
theorem readString_owned (cap : Option Nat) (data : Bytes) {s : PyBuf} {k : Nat}
    (h : readString cap true data = .ok (s, k)) : s.view = false := by
  obtain ⟨c, _, _, _, _, hv⟩ := readString_complete (own := true) cap data h
  rw [hv]; simp

theorem decodeLiteral_owned (cap : Option Nat) (t : Table) (hinv : Inv t) (ho : AllOwned t) (data : Bytes) (si : Bool)
    {h : Header} {k : Nat} {t' : Table} (hd : decodeLiteral cap true t data si = .ok (h, k, t')) :
    AllOwned t' ∧ HOwned h := by
  unfold decodeLiteral at hd
  cases data with
  | nil => simp at hd
  | cons b0 tail =>
    dsimp only at hd
    generalize (if si = true then (b0.toNat &&& 0x3F, 6, false)
        else (b0.toNat &&& 0x0F, 4, decide (b0.toNat &&& 0x10 ≠ 0))) = trip at hd
    obtain ⟨indexedName, nameLen, notIndexable⟩ := trip
    dsimp only at hd
    have key : ∀ (name : PyBuf) (c1 : Nat) (rest : Bytes), name.view = false →
        (do let (value, c2) ← readString cap true rest
            let t' ← if si then t.add name value else pure t
            pure ((⟨name, value, notIndexable⟩ : Header), c1 + c2, t') : Out (Header × Nat × Table))
          = .ok (h, k, t') → AllOwned t' ∧ HOwned h := by
      intro name c1 rest hname hh
      cases hr : readString cap true rest with
      | err e => simp [hr, bind] at hh
      | esc x => simp [hr, bind] at hh
      | ok r =>
        obtain ⟨value, c2⟩ := r
        have hvo := readString_owned cap rest hr
        simp only [hr, bind, pure] at hh
        cases si with
        | true =>
          simp only [if_true] at hh
          cases ha : t.add name value with
          | ok t2 =>
            simp only [ha, Out.ok.injEq, Prod.mk.injEq] at hh
            obtain ⟨rfl, _, rfl⟩ := hh
            exact ⟨add_owned t hinv ho name value hname hvo ha, hname, hvo⟩
          | err e => simp [ha] at hh
          | esc x => simp [ha] at hh
        | false =>
          simp only [Bool.false_eq_true, if_false, Out.ok.injEq, Prod.mk.injEq] at hh
          obtain ⟨rfl, _, rfl⟩ := hh
          exact ⟨ho, hname, hvo⟩
    by_cases hin : indexedName ≠ 0
    · rw [if_pos hin] at hd
      cases hdi : decodeInt cap (b0 :: tail) nameLen with
      | err e => simp [hdi, bind] at hd
      | esc x => simp [hdi, bind] at hd
      | ok r =>
        simp only [hdi, bind, pure] at hd
        cases hg : t.getByIndex r.1 with
        | err e => simp [hg] at hd
        | esc x => simp [hg] at hd
        | ok ent =>
          simp only [hg] at hd
          exact key ent.1 r.2 _ (getByIndex_owned t ho _ hg).1 (by simpa [bind, pure] using hd)
    · rw [if_neg hin] at hd
      cases hr1 : readString cap true tail with
      | err e => simp [hr1, bind] at hd
      | esc x => simp [hr1, bind] at hd
      | ok r1 =>
        simp only [hr1, bind, pure] at hd
        exact key r1.1 (r1.2 + 1) _ (readString_owned cap tail (by rw [hr1])) (by simpa [bind, pure] using hd)

theorem decodeField_owned (cap : Option Nat) (st : DecState) (hinv : Inv st.table) (ho : AllOwned st.table)
    (data : Bytes) (seen : Bool) {oh : Option Header} {k : Nat} {st' : DecState}
    (h : decodeField cap true st data seen = .ok (oh, k, st')) :
    AllOwned st'.table ∧ ∀ hd, oh = some hd → HOwned hd := by
  unfold decodeField at h
  cases data with
  | nil => simp at h
  | cons b0 rest =>
    dsimp only at h
    split at h
    · cases hd : decodeInt cap (b0 :: rest) 7 with
      | ok r =>
        simp only [hd, bind, pure] at h
        cases hg : st.table.getByIndex r.1 with
        | ok e =>
          simp only [hg, Out.ok.injEq, Prod.mk.injEq] at h
          obtain ⟨rfl, _, rfl⟩ := h
          have := getByIndex_owned st.table ho _ hg
          exact ⟨ho, fun hd' hh => by simp only [Option.some.injEq] at hh; subst hh; exact this⟩
        | err e => simp [hg] at h
        | esc x => simp [hg] at h
      | err e => simp [hd, bind] at h
      | esc x => simp [hd, bind] at h
    · split at h
      · generalize decide (b0.toNat &&& 0x40 ≠ 0) = si at h
        cases hl : decodeLiteral cap true st.table (b0 :: rest) si with
        | ok r =>
          simp only [hl, bind, pure, Out.ok.injEq, Prod.mk.injEq] at h
          obtain ⟨rfl, _, rfl⟩ := h
          obtain ⟨h1, h2⟩ := decodeLiteral_owned cap st.table hinv ho _ _ hl
          exact ⟨h1, fun hd' hh => by simp only [Option.some.injEq] at hh; subst hh; exact h2⟩
        | err e => simp [hl, bind] at h
        | esc x => simp [hl, bind] at h
      · split at h
        · simp at h
        · cases hd : decodeInt cap (b0 :: rest) 5 with
          | ok r =>
            simp only [hd, bind, pure] at h
            split at h
            · simp at h
            · cases hs : st.table.setMaxsize r.1 with
              | ok t' =>
                simp only [hs, Out.ok.injEq, Prod.mk.injEq] at h
                obtain ⟨rfl, _, rfl⟩ := h
                exact ⟨setMaxsize_owned st.table hinv ho _ hs, fun _ hh => by simp at hh⟩
              | err e => simp [hs] at h
              | esc x => simp [hs] at h
          | err e => simp [hd, bind] at h
          | esc x => simp [hd, bind] at h

/-- **C17** (ownership model, repaired decoder): whatever `decode` does — return, documented error or
    escape — no string in the table it leaves, and none it returns, is a view into the caller's buffer -/
theorem decodeLoop_owned (cap : Option Nat) (fuel : Nat) (st : DecState) (hinv : Inv st.table) (ho : AllOwned st.table)
    (data : Bytes) (hs : List Header) (hhs : ∀ h ∈ hs, HOwned h) (infl : Nat) :
    AllOwned (decodeLoop cap true fuel st data hs infl).2.table ∧
    ∀ out, (decodeLoop cap true fuel st data hs infl).1 = .ok out → ∀ h ∈ out, HOwned h := by
  induction fuel generalizing st data hs infl with
  | zero => exact ⟨by simpa [decodeLoop] using ho, by simp [decodeLoop]⟩
  | succ fuel ih =>
    unfold decodeLoop
    cases data with
    | nil =>
      dsimp only
      split
      · exact ⟨ho, by simp⟩
      · refine ⟨ho, ?_⟩
        intro out hout h hm
        simp only [Out.ok.injEq] at hout; subst hout
        exact hhs h (by simpa using hm)
    | cons b0 rest =>
      dsimp only
      cases hf : decodeField cap true st (b0 :: rest) (!hs.isEmpty) with
      | err e => exact ⟨ho, by simp⟩
      | esc x => exact ⟨ho, by simp⟩
      | ok r =>
        obtain ⟨oh, consumed, st'⟩ := r
        have hinv' := decodeField_inv (own := true) cap st hinv _ _ hf
        obtain ⟨ho', hoh⟩ := decodeField_owned cap st hinv ho _ _ hf
        cases oh with
        | none => exact ih st' hinv' ho' _ hs hhs _
        | some hd =>
          dsimp only
          split
          · exact ⟨ho', by simp⟩
          · exact ih st' hinv' ho' _ (hd :: hs) (by
              intro h hm
              simp only [List.mem_cons] at hm
              rcases hm with rfl | hm
              · exact hoh _ rfl
              · exact hhs h hm) _

theorem decode_owned (cap : Option Nat) (st : DecState) (hinv : Inv st.table) (ho : AllOwned st.table) (data : Bytes) :
    AllOwned (decode cap true st data).2.table ∧
    ∀ out, (decode cap true st data).1 = .ok out → ∀ h ∈ out, HOwned h :=
  decodeLoop_owned cap _ st hinv ho data [] (by simp) 0

example : AllOwned ({} : DecState).table := by simp [AllOwned]

end RFC
#print axioms RFC.decode_owned
