import HpackVerif.Impl.Huff
/-! Kernel-checked obligations on the Generated data (re-checked whenever the translator output changes). -/

set_option maxRecDepth 100000 in
theorem gen_table_ok : tableOK Gen.tree Gen.nodePaths Gen.huffTable = true := by decide +kernel
