import HpackVerif.Generated.SrcTable
import HpackVerif.Proofs.SrcTieInt
import HpackVerif.Impl.EncModel
/-! The hand-written model of `HeaderTable` (`Impl.Table`: `getByIndex`, `add`, `shrink`, `setMaxsize`) equals the
mechanical translation of `src/hpack/table.py` (`Generated/SrcTable.lean`), through the abstraction `absT`
(the model's entries carry an ownership tag on each string, the Python object does not). -/
namespace SrcTie
open Py

def proj (e : Impl.Entry) : List UInt8 × List UInt8 := (e.1.bytes, e.2.bytes)

/-- the Python object a model table stands for -/
def absT (t : Impl.Table) : Src.HeaderTable :=
  { f_maxsize := (t.maxsize : Int), f_current_size := t.curSize, f_resized := t.resized,
    f_dynamic_entries := t.entries.map proj }

def mapOut {α β} (f : α → β) : Impl.Out α → Impl.Out β
  | .ok a => .ok (f a)
  | .err e => .err e
  | .esc x => .esc x

/-- forget the object an exception carries (used where the model says nothing about the state after an escape) -/
def dropS {σ α} (r : Py.RS σ α) : Py.R α :=
  match r with
  | .ok a => .ok a
  | .error (e, _) => .error e

@[simp] theorem liftR_ok {σ α} (s : σ) (a : α) : Py.liftR s (.ok a : Py.R α) = .ok a := rfl
@[simp] theorem liftR_error {σ α} (s : σ) (e : Py.Exc) : Py.liftR s (.error e : Py.R α) = .error (e, s) := rfl
@[simp] theorem dropS_ok {σ α} (a : α) : dropS (.ok a : Py.RS σ α) = .ok a := rfl
@[simp] theorem dropS_error {σ α} (e : Py.Exc) (s : σ) : dropS (.error (e, s) : Py.RS σ α) = .error e := rfl

theorem dropS_bind {σ α β} (x : Py.RS σ α) (f : α → Py.RS σ β) :
    dropS (x >>= f) = (dropS x >>= fun a => dropS (f a)) := by
  cases x with
  | ok a => rfl
  | error es => cases es; rfl

theorem rs_ok_bind {σ α β} (a : α) (f : α → Py.RS σ β) : ((.ok a : Py.RS σ α) >>= f) = f a := rfl
theorem r_ok_bind {α β} (a : α) (f : α → Py.R β) : ((.ok a : Py.R α) >>= f) = f a := rfl
theorem dropS_ite {σ α} (c : Prop) [Decidable c] (a b : Py.RS σ α) : dropS (if c then a else b) = if c then dropS a else dropS b := by
  split <;> rfl

theorem table_entry_size_tie (fuel : Nat) (n v : List UInt8) :
    Src.table_entry_size fuel n v = .ok ((32 + n.length + v.length : Nat) : Int) := by
  simp [Src.table_entry_size, Int.natCast_add]

theorem popRight_append_single {α} (xs : List α) (x : α) : Py.popRight (xs ++ [x]) = .ok (x, xs) := by
  induction xs with
  | nil => rfl
  | cons a as ih =>
    cases as with
    | nil => simp [Py.popRight]
    | cons b bs =>
      simp only [List.cons_append] at ih ⊢
      simp [Py.popRight, ih]

/-- the eviction loop: translated `_shrink` loop = `Impl.shrinkLoop`, for every table content, size counter and maximum -/
theorem shrink_while_tie (maxsize : Nat) (res : Bool) (cs : Int) :
    ∀ (rev : List Impl.Entry) (cur : Int) (fuel : Nat), fuel > rev.length →
      dropS (Src.HeaderTable.shrink.while1 fuel
        { f_maxsize := (maxsize : Int), f_current_size := cs, f_resized := res, f_dynamic_entries := rev.reverse.map proj } cur) =
      outToR (mapOut (fun r : List Impl.Entry × Int =>
        (({ f_maxsize := (maxsize : Int), f_current_size := cs, f_resized := res, f_dynamic_entries := r.1.reverse.map proj } : Src.HeaderTable), r.2))
        (Impl.shrinkLoop maxsize rev cur)) := by
  intro rev
  induction rev with
  | nil =>
    intro cur fuel hf
    match fuel, hf with
    | f + 1, _ =>
      unfold Src.HeaderTable.shrink.while1 Impl.shrinkLoop
      by_cases h : cur > (maxsize : Int)
      · simp [h, Py.popRight, outToR, mapOut, bind, Except.bind]
      · simp [h, outToR, mapOut]
  | cons e r ih =>
    intro cur fuel hf
    match fuel, hf with
    | f + 1, hf =>
      unfold Src.HeaderTable.shrink.while1 Impl.shrinkLoop
      by_cases h : cur > (maxsize : Int)
      · simp only [h, if_true, List.reverse_cons, List.map_append, List.map_cons, List.map_nil, popRight_append_single,
          bind, Except.bind]
        have hsz := table_entry_size_tie f (proj e).1 (proj e).2
        simp only [hsz, liftR_ok]
        have := ih (cur - Impl.entrySize e) f (by simp at hf; omega)
        simpa [proj, Impl.entrySize] using this
      · simp [h, outToR, mapOut]

/-- a table result of the model read as (object, None) -/
def tableRes (r : Impl.Out Impl.Table) : Py.R (Src.HeaderTable × Unit) := outToR (mapOut (fun t => (absT t, ())) r)

/-- `_shrink`: translated method = `Impl.Table.shrink` -/
theorem shrink_tie (t : Impl.Table) (fuel : Nat) (hf : fuel > t.entries.length) :
    dropS (Src.HeaderTable.shrink fuel (absT t)) = tableRes t.shrink := by
  unfold Src.HeaderTable.shrink Impl.Table.shrink tableRes
  have h := shrink_while_tie t.maxsize t.resized t.curSize t.entries.reverse t.curSize fuel (by simpa using hf)
  simp only [List.reverse_reverse] at h
  have habs : absT t = { f_maxsize := (t.maxsize : Int), f_current_size := t.curSize, f_resized := t.resized, f_dynamic_entries := t.entries.map proj } := rfl
  simp only [habs, dropS_bind, h]
  simp only [bind, Except.bind]
  cases hl : Impl.shrinkLoop t.maxsize t.entries.reverse t.curSize with
  | ok r => simp [outToR, mapOut, absT]
  | err e => cases e <;> simp [outToR, mapOut]
  | esc x => cases x <;> simp [outToR, mapOut]

/-- `HeaderTable.add`: translated method = `Impl.Table.add`, whatever the ownership tags of the two strings -/
theorem add_tie (t : Impl.Table) (name value : Impl.PyBuf) (fuel : Nat) (hf : fuel > t.entries.length + 1) :
    dropS (Src.HeaderTable.add fuel (absT t) name.bytes value.bytes) = tableRes (t.add name value) := by
  unfold Src.HeaderTable.add Impl.Table.add
  simp only [table_entry_size_tie, liftR_ok, rs_ok_bind, dropS_ite, dropS_bind, dropS_ok]
  by_cases h : Impl.entrySize (name, value) > t.maxsize
  · have h' : ((32 + name.bytes.length + value.bytes.length : Nat) : Int) > (absT t).f_maxsize := by
      simp only [absT, Impl.entrySize] at h ⊢; omega
    simp only [h', h, if_true]
    simp [tableRes, outToR, mapOut, absT]
  · have h' : ¬ (((32 + name.bytes.length + value.bytes.length : Nat) : Int) > (absT t).f_maxsize) := by
      simp only [absT, Impl.entrySize] at h ⊢; omega
    simp only [h', h, if_false]
    have hs := shrink_tie ({ t with entries := (name, value) :: t.entries, curSize := t.curSize + Impl.entrySize (name, value) } : Impl.Table)
      fuel (by simp; omega)
    have habs : absT ({ t with entries := (name, value) :: t.entries, curSize := t.curSize + Impl.entrySize (name, value) } : Impl.Table) =
        { absT t with f_dynamic_entries := (name.bytes, value.bytes) :: (absT t).f_dynamic_entries, f_current_size := (absT t).f_current_size + ((32 + name.bytes.length + value.bytes.length : Nat) : Int) } := by
      simp [absT, proj, Impl.entrySize]
    rw [habs] at hs
    simp only [hs]
    unfold tableRes
    cases hl : Impl.Table.shrink ({ t with entries := (name, value) :: t.entries, curSize := t.curSize + Impl.entrySize (name, value) } : Impl.Table) with
    | ok r => simp [outToR, mapOut, bind, Except.bind]
    | err e => cases e <;> simp [outToR, mapOut, bind, Except.bind]
    | esc x => cases x <;> simp [outToR, mapOut, bind, Except.bind]

/-- `HeaderTable.maxsize = newmax` for a non-negative `newmax`: translated setter = `Impl.Table.setMaxsize` -/
theorem maxsize_set_tie (t : Impl.Table) (newmax : Nat) (fuel : Nat) (hf : fuel > t.entries.length) :
    dropS (Src.HeaderTable.maxsize_set fuel (absT t) (newmax : Int)) = tableRes (t.setMaxsize newmax) := by
  unfold Src.HeaderTable.maxsize_set Impl.Table.setMaxsize
  have hne : (decide ((newmax : Int) ≠ (absT t).f_maxsize)) = (newmax != t.maxsize) := by
    simp only [absT]
    by_cases h : newmax = t.maxsize
    · simp [h]
    · have : (newmax : Int) ≠ (t.maxsize : Int) := by omega
      simp [h, this]
  simp only [hne, dropS_ite, dropS_bind, dropS_ok]
  by_cases h0 : newmax = 0
  · subst h0
    simp [tableRes, outToR, mapOut, absT]
  · have h0' : ¬ ((newmax : Int) ≤ 0) := by omega
    simp only [h0', h0, if_false]
    by_cases hlt : t.maxsize > newmax
    · have hlt' : (absT t).f_maxsize > (newmax : Int) := by simp only [absT]; omega
      simp only [hlt', hlt, if_true]
      have hs := shrink_tie ({ t with maxsize := newmax, resized := newmax != t.maxsize } : Impl.Table) fuel (by simpa using hf)
      have habs : absT ({ t with maxsize := newmax, resized := newmax != t.maxsize } : Impl.Table) =
          { absT t with f_maxsize := (newmax : Int), f_resized := (newmax != t.maxsize) } := by simp [absT]
      rw [habs] at hs
      simp only [hs]
      unfold tableRes
      cases hl : Impl.Table.shrink ({ t with maxsize := newmax, resized := newmax != t.maxsize } : Impl.Table) with
      | ok r => simp [outToR, mapOut, bind, Except.bind]
      | err e => cases e <;> simp [outToR, mapOut, bind, Except.bind]
      | esc x => cases x <;> simp [outToR, mapOut, bind, Except.bind]
    · have hlt' : ¬ ((absT t).f_maxsize > (newmax : Int)) := by simp only [absT]; omega
      simp only [hlt', hlt, if_false]
      simp [tableRes, outToR, mapOut, absT]

/-- the static table the translated source indexes is the one the data translator dumped -/
theorem static_is_generated : Src.c_HeaderTable_STATIC_TABLE = Gen.staticTable := by rfl
theorem static_length : Src.c_HeaderTable_STATIC_TABLE_LENGTH = (Gen.staticTable.length : Int) := by rfl

theorem seqGet_ofNat {α} (xs : List α) (i : Nat) (x : α) (h : xs[i]? = some x) : Py.seqGet xs (i : Int) = .ok x := by
  have hlt : i < xs.length := by
    apply Classical.byContradiction; intro hc
    have : xs[i]? = none := List.getElem?_eq_none (by omega)
    rw [this] at h; cases h
  unfold Py.seqGet Py.normIndex
  have h1 : ¬ ((i : Int) < 0) := by omega
  have h2 : (0 : Int) ≤ (i : Int) ∧ (i : Int) < (xs.length : Int) := by omega
  simp [h1, h2, h]

/-- formatting the index into the message: `ValueError` exactly when the model says so -/
theorem fmtInt_ofNat (i : Nat) :
    Py.fmtInt (i : Int) = if i ≥ 10 ^ Impl.maxStrDigits then .error .valueError else .ok () := by
  unfold Py.fmtInt
  simp [Py.maxStrDigits, Impl.maxStrDigits]

/-- `HeaderTable.get_by_index(index)` for a non-negative index: translated method = `Impl.Table.getByIndex` — the entry
(static or dynamic), `InvalidTableIndex` for 0 and past the end, and the `ValueError` escape of `%d` for an index too
large to print -/
theorem get_by_index_tie (t : Impl.Table) (index : Nat) (fuel : Nat) :
    Src.HeaderTable.get_by_index fuel (absT t) (index : Int) =
      Py.liftR (absT t) (outToR (mapOut (fun e => (absT t, proj e)) (t.getByIndex index))) := by
  unfold Src.HeaderTable.get_by_index Impl.Table.getByIndex
  have hfail : (Py.liftR (absT t) (Py.fmtInt (index : Int)) >>= fun _ => (.error (.invalidTableIndex, absT t) : Py.RS Src.HeaderTable (Src.HeaderTable × (List UInt8 × List UInt8)))) =
      Py.liftR (absT t) (outToR (mapOut (fun e => (absT t, proj e)) (if index ≥ 10 ^ Impl.maxStrDigits then .esc .valueError else .err .invalidIndex))) := by
    rw [fmtInt_ofNat]
    by_cases h : index ≥ 10 ^ Impl.maxStrDigits <;> simp [h, outToR, mapOut, bind, Except.bind, Py.liftR]
  by_cases h0 : index = 0
  · subst h0
    have : ¬ ((0 : Int) ≤ ((0 : Nat) : Int) - 1) := by omega
    simp only [this, if_false, if_true]
    exact hfail
  · have hpos : (0 : Int) ≤ (index : Int) - 1 := by omega
    have hsub : (index : Int) - 1 = ((index - 1 : Nat) : Int) := by omega
    simp only [hpos, if_true, h0, if_false, hsub, static_length]
    by_cases hs : index - 1 < Gen.staticTable.length
    · have hs' : ((index - 1 : Nat) : Int) < (Gen.staticTable.length : Int) := by omega
      simp only [hs', hs, if_true]
      have hget : Gen.staticTable[index - 1]? = some (Gen.staticTable[index - 1]) := List.getElem?_eq_getElem hs
      rw [static_is_generated, seqGet_ofNat _ _ _ hget]
      simp [Impl.staticEntry, hget, outToR, mapOut, proj, bind, Except.bind, Py.liftR]
    · have hs' : ¬ (((index - 1 : Nat) : Int) < (Gen.staticTable.length : Int)) := by omega
      simp only [hs', hs, if_false]
      have hsub2 : ((index - 1 : Nat) : Int) - (Gen.staticTable.length : Int) = ((index - 1 - Gen.staticTable.length : Nat) : Int) := by omega
      simp only [hsub2, absT, List.length_map]
      by_cases hd : index - 1 - Gen.staticTable.length < t.entries.length
      · have hd' : ((index - 1 - Gen.staticTable.length : Nat) : Int) < (t.entries.length : Int) := by omega
        simp only [hd', if_true]
        have hget : t.entries[index - 1 - Gen.staticTable.length]? = some (t.entries[index - 1 - Gen.staticTable.length]) := List.getElem?_eq_getElem hd
        have hget2 : (t.entries.map proj)[index - 1 - Gen.staticTable.length]? = some (proj (t.entries[index - 1 - Gen.staticTable.length])) := by
          simp [hget]
        rw [seqGet_ofNat _ _ _ hget2]
        simp [hget, outToR, mapOut, absT, bind, Except.bind, Py.liftR]
      · have hd' : ¬ (((index - 1 - Gen.staticTable.length : Nat) : Int) < (t.entries.length : Int)) := by omega
        simp only [hd', if_false]
        have hnone : t.entries[index - 1 - Gen.staticTable.length]? = none := List.getElem?_eq_none (by omega)
        simp only [hnone]
        exact hfail

/-! ### `HeaderTable.search` -/

set_option maxRecDepth 100000 in
theorem map_eq : Gen.staticMapping = Impl.staticMapping := by decide +kernel

/-- the model's search result read as the Python tuple `(index, name, value or None)` -/
def castRes (name value : Bytes) (r : Option (Nat × Bool)) : Option (Int × Bytes × Option Bytes) :=
  r.map fun p => ((p.1 : Int), name, if p.2 then some value else none)

/-- a pending partial match is never a perfect one -/
def PartialOK (pm : Option (Nat × Bool)) : Prop := ∀ p, pm = some p → p.2 = false

theorem search_for1_tie (fuel : Nat) (self : Src.HeaderTable) (name value : Bytes) (off : Nat) :
    ∀ (ents : List Impl.Entry) (idx : Nat) (pm : Option (Nat × Bool)), PartialOK pm →
      (Src.HeaderTable.search.for1 fuel (ents.map proj) (idx : Int) self name value (castRes name value pm) (off : Int) >>= fun fl =>
        match fl with
        | .ret r => (.ok r : Py.RS Src.HeaderTable _)
        | .next p => .ok (self, p)) =
      .ok (self, castRes name value (Impl.searchDyn name value ents (idx + off) pm)) := by
  intro ents
  induction ents with
  | nil => intro idx pm _; rfl
  | cons e rest ih =>
    intro idx pm hpm
    obtain ⟨n, v⟩ := e
    simp only [List.map_cons, proj, Src.HeaderTable.search.for1, Impl.searchDyn]
    by_cases hn : n.bytes = name
    · simp only [hn, if_true]
      by_cases hv : v.bytes = value
      · simp [hv, castRes, bind, Except.bind, Int.natCast_add]
      · simp only [hv, if_false]
        have hidx : (idx : Int) + 1 = ((idx + 1 : Nat) : Int) := by omega
        cases pm with
        | none =>
          have h1 : castRes name value (none : Option (Nat × Bool)) = none := rfl
          simp only [h1, if_true, Option.isNone_none]
          have h2 : (some (((idx : Int) + (off : Int)), name, (none : Option Bytes))) = castRes name value (some (idx + off, false)) := by
            simp [castRes, Int.natCast_add]
          rw [hidx, h2]
          have := ih (idx + 1) (some (idx + off, false)) (by intro p hp; cases hp; rfl)
          rw [show idx + 1 + off = idx + off + 1 by omega] at this
          exact this
        | some p =>
          have hp2 : p.2 = false := hpm p rfl
          have h1 : castRes name value (some p) ≠ none := by simp [castRes]
          simp only [h1, if_false, Option.isNone_some, Bool.false_eq_true]
          rw [hidx]
          have := ih (idx + 1) (some p) hpm
          rw [show idx + 1 + off = idx + off + 1 by omega] at this
          exact this
    · simp only [hn, if_false]
      have hidx : (idx : Int) + 1 = ((idx + 1 : Nat) : Int) := by omega
      rw [hidx]
      have := ih (idx + 1) pm hpm
      rw [show idx + 1 + off = idx + off + 1 by omega] at this
      exact this

theorem search_for2_tie (fuel : Nat) (self : Src.HeaderTable) (name value : Bytes) (off : Nat) :
    ∀ (ents : List Impl.Entry) (idx : Nat) (pm : Option (Nat × Bool)), PartialOK pm →
      (Src.HeaderTable.search.for2 fuel (ents.map proj) (idx : Int) self name value (castRes name value pm) (off : Int) >>= fun fl =>
        match fl with
        | .ret r => (.ok r : Py.RS Src.HeaderTable _)
        | .next p => .ok (self, p)) =
      .ok (self, castRes name value (Impl.searchDyn name value ents (idx + off) pm)) := by
  intro ents
  induction ents with
  | nil => intro idx pm _; rfl
  | cons e rest ih =>
    intro idx pm hpm
    obtain ⟨n, v⟩ := e
    simp only [List.map_cons, proj, Src.HeaderTable.search.for2, Impl.searchDyn]
    by_cases hn : n.bytes = name
    · simp only [hn, if_true]
      by_cases hv : v.bytes = value
      · simp [hv, castRes, bind, Except.bind, Int.natCast_add]
      · simp only [hv, if_false]
        have hidx : (idx : Int) + 1 = ((idx + 1 : Nat) : Int) := by omega
        cases pm with
        | none =>
          have h1 : castRes name value (none : Option (Nat × Bool)) = none := rfl
          simp only [h1, if_true, Option.isNone_none]
          have h2 : (some (((idx : Int) + (off : Int)), name, (none : Option Bytes))) = castRes name value (some (idx + off, false)) := by
            simp [castRes, Int.natCast_add]
          rw [hidx, h2]
          have := ih (idx + 1) (some (idx + off, false)) (by intro p hp; cases hp; rfl)
          rw [show idx + 1 + off = idx + off + 1 by omega] at this
          exact this
        | some p =>
          have hp2 : p.2 = false := hpm p rfl
          have h1 : castRes name value (some p) ≠ none := by simp [castRes]
          simp only [h1, if_false, Option.isNone_some, Bool.false_eq_true]
          rw [hidx]
          have := ih (idx + 1) (some p) hpm
          rw [show idx + 1 + off = idx + off + 1 by omega] at this
          exact this
    · simp only [hn, if_false]
      have hidx : (idx : Int) + 1 = ((idx + 1 : Nat) : Int) := by omega
      rw [hidx]
      have := ih (idx + 1) pm hpm
      rw [show idx + 1 + off = idx + off + 1 by omega] at this
      exact this

def castV (v : Nat × List (Bytes × Nat)) : Int × List (Bytes × Int) := ((v.1 : Int), v.2.map fun p => (p.1, (p.2 : Int)))

theorem assocGet_find {β γ} (m : List (Bytes × β)) (f : β → γ) (key : Bytes) :
    Py.assocGet (m.map fun e => (e.1, f e.2)) key = (m.find? (·.1 = key)).map fun e => f e.2 := by
  induction m with
  | nil => rfl
  | cons e rest ih =>
    simp only [List.map_cons, Py.assocGet, List.find?_cons]
    by_cases h : e.1 = key
    · simp [h]
    · simp [h, ih]

/-- **`HeaderTable.search`**: translated method = `Impl.Table.search` — the static mapping first (a full match there wins,
a name match is kept as the fallback), then the dynamic entries newest first (the first full match wins, the first name
match is kept only if there is no fallback yet); the object is not changed -/
theorem search_tie (t : Impl.Table) (name value : Bytes) (fuel : Nat) :
    Src.HeaderTable.search fuel (absT t) name value = .ok (absT t, castRes name value (t.search name value)) := by
  unfold Src.HeaderTable.search Impl.Table.search
  have hm : Src.c_HeaderTable_STATIC_TABLE_MAPPING = Impl.staticMapping.map fun e => (e.1, castV e.2) := by
    unfold Src.c_HeaderTable_STATIC_TABLE_MAPPING; rw [map_eq]; rfl
  rw [hm, assocGet_find Impl.staticMapping castV name]
  have hoff : Src.c_HeaderTable_STATIC_TABLE_LENGTH + 1 = ((Gen.staticTable.length + 1 : Nat) : Int) := by
    rw [static_length]; omega
  cases hf : Impl.staticMapping.find? (·.1 = name) with
  | none =>
    simp only [Option.map_none]
    rw [hoff]
    have := search_for2_tie fuel (absT t) name value (Gen.staticTable.length + 1) t.entries 0 none (by intro p hp; cases hp)
    simp only [Nat.zero_add, castRes, Option.map_none] at this
    exact this
  | some e =>
    obtain ⟨nm, first, vals⟩ := e
    simp only [Option.map_some, castV]
    have hv : Py.assocGet (vals.map fun p => (p.1, (p.2 : Int))) value = (vals.find? (·.1 = value)).map fun p => (p.2 : Int) :=
      assocGet_find vals (fun (x : Nat) => (x : Int)) value
    rw [hv]
    cases hf2 : vals.find? (·.1 = value) with
    | some p =>
      obtain ⟨vv, idx⟩ := p
      simp [castRes]
    | none =>
      simp only [Option.map_none]
      rw [hoff]
      have := search_for1_tie fuel (absT t) name value (Gen.staticTable.length + 1) t.entries 0 (some (first, false)) (by intro p hp; cases hp; rfl)
      simp only [Nat.zero_add] at this
      have hc : castRes name value (some (first, false)) = some ((first : Int), name, (none : Option Bytes)) := by simp [castRes]
      rw [hc] at this
      exact this

end SrcTie
