import HpackVerif.Proofs.SrcTieEnc
import HpackVerif.Impl.Api
/-! The loop of `Encoder.encode` with `_to_bytes` and `_dict_to_iterable`, as translated from `src/hpack/hpack.py`
(`Generated/SrcEnc.lean`), equals the model's `Impl.EncState.encodeForms` on every input the model gives a meaning to. -/
namespace SrcTie
open Py

/-- a name or value as the model has it, as the dynamically typed object the source sees -/
def objOf : Impl.PyStr → Py.Obj
  | .bytes b => .bytes b
  | .text s => .str s

/-- which Python header objects a model header form stands for: 2-tuples; tuples of three **or more** elements whose third
has the form's truth value (whatever object it is); `HeaderTuple`s and `NeverIndexedHeaderTuple`s -/
inductive FormRep : Impl.FieldForm → Py.Hdr → Prop
  | tuple2 (n v) : FormRep (.tuple2 n v) (.tuple [objOf n, objOf v])
  | tuple3 (n v) (o : Py.Obj) (more : List Py.Obj) : FormRep (.tuple3 n v o.truthy) (.tuple (objOf n :: objOf v :: o :: more))
  | headerTuple (n v) : FormRep (.headerTuple n v) (.headerTuple (objOf n) (objOf v) Src.c_HeaderTuple_indexable)
  | neverTuple (n v) : FormRep (.neverTuple n v) (.headerTuple (objOf n) (objOf v) Src.c_NeverIndexedHeaderTuple_indexable)

/-- what `Py.Hdr` assumes about the tuple classes of `struct.py`, as the translator found them at run time: a
`NeverIndexedHeaderTuple` is a `HeaderTuple`, both are 2-tuples, a plain tuple is not a `HeaderTuple`; and the
`indexable` attributes are what the model's `sensitiveFlag` says -/
theorem tuple_classes_ok :
    Src.c_NeverIndexedHeaderTuple_isHeaderTuple = true ∧ Src.c_HeaderTuple_isTuple2 = true ∧ Src.c_plainTuple_isHeaderTuple = false ∧
    Src.c_HeaderTuple_indexable = true ∧ Src.c_NeverIndexedHeaderTuple_indexable = false := ⟨rfl, rfl, rfl, rfl, rfl⟩

theorem to_bytes_eq (fuel : Nat) (p : Impl.PyStr) : Src._to_bytes fuel (objOf p) = .ok p.toBytes := by
  cases p <;> rfl

/-- `_to_bytes` on any other object: the UTF-8 encoding of `str(value)` -/
theorem to_bytes_other (fuel : Nat) (r : String) (t : Bool) : Src._to_bytes fuel (.other r t) = .ok r.toUTF8.data.toList := rfl

/-- agreement up to the object an escaping exception leaves behind (the model returns no state on failure) -/
def AgreeOut {σ α β} (r : Py.RS σ β) (o : Impl.Out α) (okv : α → β) : Prop :=
  match o with
  | .ok a => r = .ok (okv a)
  | .err e => dropS r = .error (excOfErr e)
  | .esc x => dropS r = .error (excOfEsc x)

theorem agreeOut_of_agree {σ α β} (r : Py.RS σ β) (o : Impl.Out α) (okv : α → β) (s : σ) (h : Agree r o okv s) : AgreeOut r o okv := by
  cases o with
  | ok a => exact h
  | err e => simp only [Agree] at h; simp only [AgreeOut, h, dropS_error]
  | esc x => exact h

/-- fuel that suffices for every `add` of the loop, along the states the model goes through -/
def loopFuel (huff : Bool) : Impl.EncState → List Impl.FieldForm → Nat
  | _, [] => 0
  | e, f :: rest =>
    max (addFuel e f.name.toBytes f.value.toBytes + 1)
      (match e.add true f.name.toBytes f.value.toBytes f.sensitiveFlag huff with
       | .ok r => loopFuel huff r.2 rest
       | _ => 0)

theorem hdr_get0 (a : Py.Obj) (rest : List Py.Obj) : Py.seqGet (a :: rest) (0 : Int) = .ok a :=
  seqGet_ofNat (a :: rest) 0 a rfl
theorem hdr_get1 (a b : Py.Obj) (rest : List Py.Obj) : Py.seqGet (a :: b :: rest) (1 : Int) = .ok b :=
  seqGet_ofNat (a :: b :: rest) 1 b rfl
theorem hdr_get2 (a b c : Py.Obj) (rest : List Py.Obj) : Py.seqGet (a :: b :: c :: rest) (2 : Int) = .ok c :=
  seqGet_ofNat (a :: b :: c :: rest) 2 c rfl

/-- one iteration of the translated loop = the translated `add` on the form's name, value and flag, then the rest -/
theorem iter_step (fuel : Nat) (f : Impl.FieldForm) (h : Py.Hdr) (hr : FormRep f h) (hs : List Py.Hdr) (self : Src.Encoder)
    (huff : Bool) (block : List (List UInt8)) :
    Src.Encoder.encode.for1 fuel (h :: hs) self huff block =
      Except.bind (Src.Encoder.add fuel self (f.name.toBytes, f.value.toBytes) f.sensitiveFlag huff)
        (fun r => Src.Encoder.encode.for1 fuel hs r.1 huff (block ++ [r.2])) := by
  rw [Src.Encoder.encode.for1]
  cases hr with
  | tuple2 n v =>
    simp [Py.Hdr.isHeaderTuple, Py.Hdr.len, Py.Hdr.get, Py.Hdr.items, hdr_get0, hdr_get1, to_bytes_eq, liftR_ok, ebind_ok, bind,
      Impl.FieldForm.name, Impl.FieldForm.value, Impl.FieldForm.sensitiveFlag]
  | tuple3 n v o more =>
    have hlen : (2 : Int) < (more.length : Int) + 1 + 1 + 1 := by omega
    simp [Py.Hdr.isHeaderTuple, Py.Hdr.len, Py.Hdr.get, Py.Hdr.items, hdr_get0, hdr_get1, hdr_get2, to_bytes_eq, liftR_ok, ebind_ok, bind,
      Impl.FieldForm.name, Impl.FieldForm.value, Impl.FieldForm.sensitiveFlag, hlen]
  | headerTuple n v =>
    simp [tuple_classes_ok.2.2.2.1, Py.Hdr.isHeaderTuple, Py.Hdr.indexable, Py.Hdr.get, Py.Hdr.items, hdr_get0, hdr_get1, to_bytes_eq, liftR_ok, ebind_ok, bind,
      Impl.FieldForm.name, Impl.FieldForm.value, Impl.FieldForm.sensitiveFlag]
  | neverTuple n v =>
    simp [tuple_classes_ok.2.2.2.2, Py.Hdr.isHeaderTuple, Py.Hdr.indexable, Py.Hdr.get, Py.Hdr.items, hdr_get0, hdr_get1, to_bytes_eq, liftR_ok, ebind_ok, bind,
      Impl.FieldForm.name, Impl.FieldForm.value, Impl.FieldForm.sensitiveFlag]

theorem dropS_ebind_error {σ α β} (r : Py.RS σ α) (k : α → Py.RS σ β) (e : Py.Exc) (h : dropS r = .error e) :
    dropS (Except.bind r k) = .error e := by
  cases r with
  | ok a => simp [dropS] at h
  | error es => obtain ⟨e', s⟩ := es; simp only [dropS_error] at h; cases h; rfl

/-- the loop's outcome against the model's: on success the object and the pieces (whose concatenation is the model's
octets); on failure the exception class -/
def LoopAgree (r : Py.RS Src.Encoder (Src.Encoder × List (List UInt8))) (o : Impl.Out (Bytes × Impl.EncState)) : Prop :=
  match o with
  | .ok a => ∃ blk, r = .ok (absE a.2, blk) ∧ blk.flatten = a.1
  | .err e => dropS r = .error (excOfErr e)
  | .esc x => dropS r = .error (excOfEsc x)

/-- the translated `for header in hpack_headers` loop = `Impl.encodeFormsLoop` -/
theorem loop_agree (huff : Bool) (fs : List Impl.FieldForm) (hs : List Py.Hdr) (hrep : List.Forall₂ FormRep fs hs) :
    ∀ (fuel : Nat) (e : Impl.EncState) (block : List (List UInt8)), fuel ≥ loopFuel huff e fs →
      LoopAgree (Src.Encoder.encode.for1 fuel hs (absE e) huff block) (Impl.encodeFormsLoop true huff e block.flatten fs) := by
  induction hrep with
  | nil =>
    intro fuel e block _
    simp only [Src.Encoder.encode.for1, Impl.encodeFormsLoop, opure, LoopAgree]
    exact ⟨block, rfl, rfl⟩
  | @cons f h fs hs hr _ ih =>
    intro fuel e block hf
    rw [iter_step fuel f h hr]
    simp only [loopFuel] at hf
    have hadd := enc_add_agree fuel e f.name.toBytes f.value.toBytes f.sensitiveFlag huff (by omega)
    rw [Impl.encodeFormsLoop]
    generalize hm : e.add true f.name.toBytes f.value.toBytes f.sensitiveFlag huff = m at hadd hf
    cases m with
    | ok r =>
      obtain ⟨b, e'⟩ := r
      simp only [Agree] at hadd
      simp only [hadd, ebind_ok, obind_ok]
      have := ih fuel e' (block ++ [b]) (by simp only at hf; omega)
      simpa [List.flatten_append] using this
    | err er =>
      simp only [Agree] at hadd
      simp only [hadd, ebind_err, obind_err, LoopAgree, dropS_error]
    | esc x =>
      simp only [Agree] at hadd
      simp only [obind_esc, LoopAgree]
      exact dropS_ebind_error _ _ _ hadd

/-! ### `_dict_to_iterable` -/

def pairOf (kv : Impl.PyStr × Impl.PyStr) : Py.Obj × Py.Obj := (objOf kv.1, objOf kv.2)
def tupleOf (kv : Impl.PyStr × Impl.PyStr) : Py.Hdr := .tuple [objOf kv.1, objOf kv.2]

theorem startsWith_colon (b : Bytes) : Py.startsWith b [58] = (match b with | x :: _ => x == 58 | [] => false) := by
  cases b with
  | nil => rfl
  | cons x xs =>
    simp only [Py.startsWith, List.isPrefixOf, List.isPrefixOf_nil_left, Bool.and_true]
    by_cases h : x = 58
    · subst h; rfl
    · have h1 : (x == 58) = false := by simpa using h
      have h2 : ((58 : UInt8) == x) = false := by simpa using fun hh : (58 : UInt8) = x => h hh.symm
      rw [h1, h2]

theorem key_fn (fuel : Nat) (k : Impl.PyStr) :
    (do let t2 ← Src._to_bytes fuel (objOf k); (.ok (decide (¬ ((Py.startsWith t2 ([58] : List UInt8)) = true))) : Py.R Bool)) =
      .ok (!Impl.isSpecial k) := by
  rw [to_bytes_eq]
  show (Except.ok (decide (¬ (Py.startsWith k.toBytes [58] = true))) : Py.R Bool) = _
  rw [startsWith_colon]
  unfold Impl.isSpecial
  cases k.toBytes with
  | nil => rfl
  | cons x xs => cases h : (x == 58) <;> simp [h]

theorem keys_mapM (fuel : Nat) (items : List (Impl.PyStr × Impl.PyStr)) :
    Py.listMapM (fun k => do let t2 ← Src._to_bytes fuel k; (.ok (decide (¬ ((Py.startsWith t2 ([58] : List UInt8)) = true))) : Py.R Bool))
        (items.map fun kv => objOf kv.1) = .ok (items.map fun kv => !Impl.isSpecial kv.1) := by
  induction items with
  | nil => rfl
  | cons kv rest ih =>
    simp only [List.map_cons, Py.listMapM]
    rw [key_fn, ih]

theorem sorted_keys (items : List (Impl.PyStr × Impl.PyStr)) :
    Py.sortedByBool (items.map fun kv => objOf kv.1) (items.map fun kv => !Impl.isSpecial kv.1) =
      (Impl.dictOrder items).map fun kv => objOf kv.1 := by
  unfold Py.sortedByBool Impl.dictOrder
  simp only [List.zip_map', List.filter_map, List.map_map, List.map_append]
  congr 1
  congr 1
  apply List.filter_congr
  intro x _
  simp

theorem getItem_of_mem (items : List (Impl.PyStr × Impl.PyStr)) (hnd : (items.map fun kv => objOf kv.1).Nodup)
    (kv : Impl.PyStr × Impl.PyStr) (hmem : kv ∈ items) :
    Py.Headers.getItem (.dict (items.map pairOf)) (objOf kv.1) = .ok (objOf kv.2) := by
  have hfind : (items.map pairOf).find? (fun p => p.1 = objOf kv.1) = some (pairOf kv) := by
    induction items with
    | nil => cases hmem
    | cons hd tl ih =>
      simp only [List.map_cons, List.nodup_cons] at hnd
      simp only [List.map_cons, List.find?_cons]
      rcases List.mem_cons.mp hmem with rfl | hin
      · simp [pairOf]
      · have hne : ¬ ((pairOf hd).1 = objOf kv.1) := by
          intro heq
          apply hnd.1
          simp only [pairOf] at heq
          rw [heq]
          exact List.mem_map.mpr ⟨kv, hin, rfl⟩
        simp only [hne, decide_false]
        exact ih hnd.2 hin
  simp only [Py.Headers.getItem, hfind, pairOf]

theorem dict_for1 (fuel : Nat) (items : List (Impl.PyStr × Impl.PyStr)) (hnd : (items.map fun kv => objOf kv.1).Nodup) :
    ∀ (l : List (Impl.PyStr × Impl.PyStr)) (acc : List Py.Hdr), (∀ kv ∈ l, kv ∈ items) →
      Src._dict_to_iterable.for1 fuel (l.map fun kv => objOf kv.1) (.dict (items.map pairOf)) acc = .ok (acc ++ l.map tupleOf) := by
  intro l
  induction l with
  | nil => intro acc _; simp [Src._dict_to_iterable.for1]
  | cons kv rest ih =>
    intro acc hall
    simp only [List.map_cons, Src._dict_to_iterable.for1]
    rw [getItem_of_mem items hnd kv (hall kv (List.mem_cons_self ..))]
    simp only [bind, Except.bind]
    rw [ih _ (fun x hx => hall x (List.mem_cons_of_mem _ hx))]
    simp [tupleOf]

/-- **`_dict_to_iterable`** on a dict (keys pairwise distinct, as in any dict): the items as 2-tuples, special headers first,
each group in insertion order -/
theorem dict_to_iterable_eq (fuel : Nat) (items : List (Impl.PyStr × Impl.PyStr)) (hnd : (items.map fun kv => objOf kv.1).Nodup) :
    Src._dict_to_iterable fuel (.dict (items.map pairOf)) = .ok ((Impl.dictOrder items).map tupleOf) := by
  unfold Src._dict_to_iterable
  have hk : Py.Headers.keys (.dict (items.map pairOf)) = .ok (items.map fun kv => objOf kv.1) := by
    simp [Py.Headers.keys, pairOf, List.map_map, Function.comp_def]
  simp only [Py.Headers.isDict, not_true_eq_false, if_false, hk, r_ok_bind, keys_mapM, sorted_keys]
  rw [dict_for1 fuel items hnd (Impl.dictOrder items) [] (by
    intro kv hkv
    unfold Impl.dictOrder at hkv
    rcases List.mem_append.mp hkv with h | h <;> exact (List.mem_filter.mp h).1)]
  simp only [List.nil_append]
  rfl

/-- a non-dict is refused with `TypeError` -/
theorem dict_to_iterable_not_dict (fuel : Nat) (hs : List Py.Hdr) : Src._dict_to_iterable fuel (.iterable hs) = .error .typeError := rfl

/-! ### `Encoder.encode` -/

/-- which Python `headers` arguments a model container stands for: any iterable of represented headers; a dict whose keys
are pairwise distinct objects (as in any dict) -/
inductive ContRep : Impl.Container → Py.Headers → Prop
  | iterable (fs : List Impl.FieldForm) (hs : List Py.Hdr) (h : List.Forall₂ FormRep fs hs) : ContRep (.iterable fs) (.iterable hs)
  | dict (items : List (Impl.PyStr × Impl.PyStr)) (hnd : (items.map fun kv => objOf kv.1).Nodup) :
      ContRep (.dict items) (.dict (items.map pairOf))

def preState (e : Impl.EncState) : Impl.EncState :=
  if e.table.resized then { table := { e.table with resized := false }, changes := [] } else e
def preBytes (e : Impl.EncState) : Bytes :=
  if e.table.resized then e.changes.flatMap (fun n => Impl.orFirst (Impl.encodeInt n 5) 0x20) else []

theorem encodeForms_eq (e : Impl.EncState) (c : Impl.Container) (huff : Bool) :
    e.encodeForms true c huff = Impl.encodeFormsLoop true huff (preState e) (preBytes e) c.items := by
  unfold Impl.EncState.encodeForms preState preBytes
  by_cases h : e.table.resized = true <;> simp [h]

theorem dict_forms (l : List (Impl.PyStr × Impl.PyStr)) :
    List.Forall₂ FormRep (l.map fun kv => Impl.FieldForm.tuple2 kv.1 kv.2) (l.map tupleOf) := by
  induction l with
  | nil => exact .nil
  | cons kv rest ih => exact .cons (FormRep.tuple2 kv.1 kv.2) ih

/-- the tail of `encode`: join the pieces -/
theorem finish_agree (r : Py.RS Src.Encoder (Src.Encoder × List (List UInt8))) (o : Impl.Out (Bytes × Impl.EncState))
    (h : LoopAgree r o) :
    AgreeOut (Except.bind r fun p => (.ok (p.1, Py.joinBytes p.2) : Py.RS Src.Encoder (Src.Encoder × List UInt8))) o
      (fun a => (absE a.2, a.1)) := by
  cases o with
  | ok a =>
    obtain ⟨blk, hr, hb⟩ := h
    simp only [AgreeOut, hr, ebind_ok, Py.joinBytes, hb]
  | err er => exact dropS_ebind_error _ _ _ h
  | esc x => exact dropS_ebind_error _ _ _ h

def encodeFuel (e : Impl.EncState) (c : Impl.Container) (huff : Bool) : Nat :=
  max (e.changes.sum + 1) (loopFuel huff (preState e) c.items)

theorem sum_bound (l : List Nat) (x : Nat) (hx : x ∈ l) : x ≤ l.sum := by
  induction l with
  | nil => cases hx
  | cons a t ih =>
    simp only [List.mem_cons] at hx
    simp only [List.sum_cons]
    rcases hx with rfl | hx
    · omega
    · have := ih hx; omega

/-- the part of `encode` after the prologue, for a represented container -/
theorem encode_tail (fuel : Nat) (e1 : Impl.EncState) (c : Impl.Container) (hs : Py.Headers) (hrep : ContRep c hs) (huff : Bool)
    (block : List (List UInt8)) (hf : fuel ≥ loopFuel huff e1 c.items) :
    AgreeOut
      (if (Py.Headers.isDict hs = true) then do
          let t2 ← Py.liftR (absE e1) (Src._dict_to_iterable fuel hs)
          let hpack_headers := t2
          let (self, header_block) ← Src.Encoder.encode.for1 fuel hpack_headers (absE e1) huff block
          let encoded := (Py.joinBytes header_block)
          (.ok (self, encoded) : Py.RS Src.Encoder (Src.Encoder × List UInt8))
        else do
          let t20 ← Py.liftR (absE e1) (Py.Headers.iter hs)
          let hpack_headers := t20
          let (self, header_block) ← Src.Encoder.encode.for1 fuel hpack_headers (absE e1) huff block
          let encoded := (Py.joinBytes header_block)
          (.ok (self, encoded) : Py.RS Src.Encoder (Src.Encoder × List UInt8)))
      (Impl.encodeFormsLoop true huff e1 block.flatten c.items) (fun a => (absE a.2, a.1)) := by
  cases hrep with
  | iterable fs hs h =>
    simp only [Py.Headers.isDict, Bool.false_eq_true, if_false, Py.Headers.iter, liftR_ok, rs_ok_bind]
    exact finish_agree _ _ (loop_agree huff fs hs h fuel e1 block hf)
  | dict items hnd =>
    simp only [Py.Headers.isDict, if_true, dict_to_iterable_eq fuel items hnd, liftR_ok, rs_ok_bind]
    exact finish_agree _ _ (loop_agree huff _ _ (dict_forms (Impl.dictOrder items)) fuel e1 block hf)

/-- **`Encoder.encode(headers, huffman)`**: translated source = `Impl.EncState.encodeForms` -/
theorem encode_agree (fuel : Nat) (e : Impl.EncState) (c : Impl.Container) (hs : Py.Headers) (hrep : ContRep c hs) (huff : Bool)
    (hf : fuel ≥ encodeFuel e c huff) :
    AgreeOut (Src.Encoder.encode fuel (absE e) hs huff) (e.encodeForms true c huff) (fun a => (absE a.2, a.1)) := by
  rw [encodeForms_eq]
  unfold Src.Encoder.encode
  unfold encodeFuel at hf
  have hres : (absE e).f_header_table.f_resized = e.table.resized := rfl
  by_cases hr : e.table.resized = true
  · have hchg := encode_table_size_change_eq fuel e (by
      intro c hc
      have := sum_bound e.changes c hc
      omega)
    have hst : ({ absE { e with changes := [] } with f_header_table := { (absE { e with changes := [] }).f_header_table with f_resized := false } } : Src.Encoder)
        = absE (preState e) := by
      simp only [preState, hr, if_true]; rfl
    have hpb : ([] ++ [e.changes.flatMap fun n => Impl.orFirst (Impl.encodeInt n 5) 0x20] : List (List UInt8)).flatten = preBytes e := by
      simp [preBytes, hr]
    simp only [hres, hr, if_true, hchg, rs_ok_bind, hst]
    rw [← hpb]
    exact encode_tail fuel (preState e) c hs hrep huff _ (by omega)
  · have hps : preState e = e := by simp [preState, hr]
    have hpb : preBytes e = ([] : List (List UInt8)).flatten := by simp [preBytes, hr]
    simp only [hres, hr, if_false, Bool.false_eq_true]
    rw [hps, hpb]
    rw [hps] at hf
    exact encode_tail fuel e c hs hrep huff [] (by omega)

end SrcTie
