import HpackVerif.Proofs.C19
namespace RFC
open Impl
variable {own : Bool}

/-- the abstract effect of a list of size updates on a peer's dynamic table -/
def applyUpd (dyn : List E) (max : Nat) : List Nat → List E × Nat
  | [] => (dyn, max)
  | v :: vs => applyUpd (fitE v dyn) v vs

theorem applyUpd_append (dyn : List E) (max : Nat) (vs : List Nat) (v : Nat) :
    applyUpd dyn max (vs ++ [v]) = (fitE v (applyUpd dyn max vs).1, v) := by
  induction vs generalizing dyn max with
  | nil => rfl
  | cons x xs ih => simp only [List.cons_append, applyUpd]; exact ih _ _

def updReps (vs : List Nat) : List (Rep × Choice) := vs.map fun n => (.sizeUpdate n, ch0 false)

theorem updates_octets (vs : List Nat) :
    vs.flatMap (fun n => orFirst (encodeInt n 5) 0x20) = blockOctets (updReps vs) := by
  induction vs with
  | nil => rfl
  | cons v vs ih =>
    simp only [List.flatMap_cons, updReps, List.map_cons, blockOctets, reprOctets, ch0] at ih ⊢
    rw [orFirst_encodeInt _ 5 0x20 (by omega) (by omega) (by decide), ih]

theorem blockOctets_append (a b : List (Rep × Choice)) : blockOctets (a ++ b) = blockOctets a ++ blockOctets b := by
  induction a with
  | nil => rfl
  | cons x xs ih => obtain ⟨r, ch⟩ := x; simp [blockOctets, ih, List.append_assoc]

/-- leading size updates, each within the permitted maximum, are applied one after the other -/
theorem interpLoop_updates (ctx : Ctx) (vs : List Nat) (rest : List Rep) (hle : ∀ v ∈ vs, v ≤ ctx.allowed) :
    interpLoop ctx ((updReps vs).map (·.1) ++ rest) [] 0 =
      interpLoop ⟨(applyUpd ctx.dyn ctx.max vs).1, (applyUpd ctx.dyn ctx.max vs).2, ctx.allowed, ctx.listLimit⟩
        rest [] 0 := by
  induction vs generalizing ctx with
  | nil => rfl
  | cons v vs ih =>
    have hv : ¬ v > ctx.allowed := by have := hle v (by simp); omega
    simp only [updReps, List.map_cons, List.cons_append, interpLoop, interpField, List.isEmpty_nil,
      Bool.not_true, Bool.false_eq_true, if_false, if_neg hv, applyUpd]
    have := ih ⟨fitE v ctx.dyn, v, ctx.allowed, ctx.listLimit⟩ (fun x hx => hle x (by simp [hx]))
    simpa [updReps] using this

/-- encoder-side bookkeeping invariant (with the sticky `resized` flag of the repaired setter) -/
structure EncOK (e : EncState) : Prop where
  inv : Inv e.table
  flag : e.table.resized = true ↔ e.changes ≠ []

/-- what the peer will hold once it has applied the pending updates -/
def Pending (e : EncState) (st : DecState) : Prop :=
  applyUpd (absT st.table) st.table.maxsize e.changes = (absT e.table, e.table.maxsize)

theorem fitE_of_le (m : Nat) (l : List E) (h : (l.map esize).sum ≤ m) : fitE m l = l := by
  induction l generalizing m with
  | nil => rfl
  | cons e es ih =>
    simp only [List.map_cons, List.sum_cons] at h
    simp only [fitE, if_pos (show esize e ≤ m by omega)]
    rw [ih (m - esize e) (by omega)]

theorem tsize_absT (t : Table) : ((absT t).map esize).sum = tsize t.entries := by
  simp [absT, tsize, List.map_map, Function.comp_def, esize_absE]

/-- **C09/C10** (setter): assigning a table size keeps the bookkeeping invariant and the peer's pending view -/
theorem setSize_ok (e : EncState) (st : DecState) (hok : EncOK e) (hp : Pending e st) (v : Nat) :
    ∃ e', e.setSize true v = .ok e' ∧ EncOK e' ∧ Pending e' st ∧ e'.table.maxsize = v ∧
      (∀ x ∈ e'.changes, x ∈ e.changes ∨ x = v) := by
  obtain ⟨t', hset, hent, hmax, hinv', _⟩ := setMaxsize_spec e.table v hok.inv
  have hres : t'.resized = (v != e.table.maxsize) := by
    unfold Table.setMaxsize at hset
    dsimp only at hset
    split at hset
    · simp only [Out.ok.injEq] at hset; rw [← hset]
    · split at hset
      · unfold Table.shrink at hset
        split at hset
        · simp only [Out.ok.injEq] at hset; rw [← hset]
        · simp at hset
        · simp at hset
      · simp only [Out.ok.injEq] at hset; rw [← hset]
  unfold EncState.setSize
  simp only [hset, bind, pure]
  refine ⟨_, rfl, ⟨⟨?_, ?_⟩, ?_⟩, ?_, hmax, ?_⟩
  · exact hinv'.cached
  · exact hinv'.bounded
  · -- flag ↔ changes ≠ []
    simp only [hres, Bool.true_and]
    by_cases hne : v = e.table.maxsize
    · simp only [hne, bne_self_eq_false, Bool.false_or, Bool.false_eq_true, if_false]
      exact hok.flag
    · have : (v != e.table.maxsize) = true := by simp [hne]
      simp [this]
  · -- pending view
    unfold Pending at hp ⊢
    simp only [hres]
    have habs : absT t' = fitE v (absT e.table) := by simp only [absT, hent, map_fit]
    by_cases hne : v = e.table.maxsize
    · simp only [hne, bne_self_eq_false, Bool.false_eq_true, if_false]
      rw [hp]
      have : fitE e.table.maxsize (absT e.table) = absT e.table :=
        fitE_of_le _ _ (by rw [tsize_absT]; exact hok.inv.bounded)
      show (absT e.table, e.table.maxsize) = (absT t', t'.maxsize)
      rw [habs, hmax, hne, this]
    · have : (v != e.table.maxsize) = true := by simp [hne]
      simp only [this, if_true]
      rw [applyUpd_append, hp]
      show (fitE v (absT e.table), v) = (absT t', t'.maxsize)
      rw [habs, hmax]
  · intro x hx
    simp only [hres] at hx
    split at hx
    · simp only [List.mem_append, List.mem_singleton] at hx; exact hx
    · exact Or.inl hx

/-- **C01/C09/C10** (one block, pending size changes included): the block starts with exactly the
    pending updates, the decoder returns the header list, both sides hold the same table afterwards
    and nothing is pending any more -/
theorem roundtrip_block' (cap : Option Nat) (e : EncState) (st : DecState) (hok : EncOK e) (hinvD : Inv st.table)
    (hp : Pending e st) (hallow : ∀ v ∈ e.changes, v ≤ st.allowed) (hcur : e.table.maxsize ≤ st.allowed)
    (hs : List (Bytes × Bytes × Bool)) (huff : Bool) (hlim : listSize hs ≤ st.listLimit)
    (hrep : ∀ rc ∈ updReps e.changes ++ encReps true huff ⟨{ e.table with resized := false }, []⟩ hs,
              RepOK cap rc.1 rc.2) :
    ∃ bytes e', e.encode true hs huff = .ok (bytes, e') ∧
      bytes = blockOctets (updReps e.changes ++ encReps true huff ⟨{ e.table with resized := false }, []⟩ hs) ∧
      EncOK e' ∧ e'.changes = [] ∧ e'.table.maxsize = e.table.maxsize ∧
      ∃ hs', (decode cap own st bytes).1 = .ok hs' ∧
        hs'.map (fun h => (h.name.bytes, h.value.bytes)) = hs.map (fun h => (h.1, h.2.1)) ∧
        Pending e' (decode cap own st bytes).2 := by
  -- the encoder state after flushing
  let e0 : EncState := ⟨{ e.table with resized := false }, []⟩
  have hinv0 : Inv e0.table := ⟨hok.inv.cached, hok.inv.bounded⟩
  obtain ⟨e', hloop, hinv', hch', hmax', hres', fs', hI, hfs'⟩ :=
    encLoop_emits true huff e0 hinv0 [] hs st.allowed st.listLimit [] 0 (by omega) hcur
  have hchanges : e.table.resized = false → e.changes = [] := by
    intro h
    by_contra hne
    have := hok.flag.mpr hne
    rw [h] at this; exact absurd this (by simp)
  have henc : e.encode true hs huff = .ok (blockOctets (updReps e.changes ++ encReps true huff e0 hs), e') := by
    unfold EncState.encode
    by_cases hr : e.table.resized = true
    · simp only [hr, if_true, bind, pure]
      rw [encode_go_eq, updates_octets]
      have := encLoop_emits true huff e0 hinv0 (blockOctets (updReps e.changes)) hs st.allowed st.listLimit [] 0
        (by omega) hcur
      obtain ⟨e'', hl2, _⟩ := this
      have hsame : e'' = e' := by
        have h1 := hloop
        -- both runs pass through the same states; compare via determinism of encLoop on the accumulator
        clear hI hfs'
        revert hl2 h1
        generalize blockOctets (updReps e.changes) = acc
        intro hl2 h1
        have : ∀ (hs : List (Bytes × Bytes × Bool)) (e0 : EncState) (a1 a2 : Bytes) (x y : Bytes × EncState),
            encLoop true huff e0 a1 hs = .ok x → encLoop true huff e0 a2 hs = .ok y → x.2 = y.2 := by
          intro hs
          induction hs with
          | nil => intro e0 a1 a2 x y h1 h2; simp [encLoop, pure] at h1 h2; rw [← h1, ← h2]
          | cons h rest ih =>
            intro e0 a1 a2 x y h1 h2
            obtain ⟨n, v, s⟩ := h
            simp only [encLoop, bind] at h1 h2
            cases ha : e0.add true n v s huff with
            | ok r => simp only [ha] at h1 h2; exact ih _ _ _ _ _ h1 h2
            | err z => simp [ha] at h1
            | esc z => simp [ha] at h1
        exact this hs e0 _ _ _ _ hl2 h1
      rw [hl2, hsame, blockOctets_append]
    · have hr' : e.table.resized = false := by simpa using hr
      have hc := hchanges hr'
      simp only [hr', Bool.false_eq_true, if_false, bind, pure]
      rw [encode_go_eq]
      have he0 : e0 = e := by
        cases e with
        | mk t c => cases t with | mk en mx cs rs => simp only at hr' hc; simp [e0, hr', hc]
      rw [← he0, hloop]; simp [updReps, e0]
  refine ⟨_, e', henc, rfl, ⟨hinv', ?_⟩, by rw [hch'], by rw [hmax'], ?_⟩
  · rw [hres', hch']; simp [e0]
  · -- the decoder
    have hdec := decode_blockOctets (own := own) cap st hinvD _ hrep
    have hI0 : interp (abs st) ((updReps e.changes ++ encReps true huff e0 hs).map (·.1))
        = (.ok ([].reverse ++ fs'), peerCtx e' st.allowed st.listLimit) := by
      rw [interp, List.map_append, interpLoop_updates (abs st) e.changes _ hallow]
      have hp' := hp
      unfold Pending at hp'
      have hctx : (⟨(applyUpd (abs st).dyn (abs st).max e.changes).1, (applyUpd (abs st).dyn (abs st).max e.changes).2,
          (abs st).allowed, (abs st).listLimit⟩ : Ctx) = peerCtx e0 st.allowed st.listLimit := by
        simp only [abs, peerCtx, e0]
        rw [hp']
        rfl
      rw [hctx]; exact hI
    rw [hI0] at hdec
    obtain ⟨⟨hs', hd1, hd2⟩, hd3⟩ := hdec
    refine ⟨hs', hd1, ?_, ?_⟩
    · have : hs'.map (fun h => (h.name.bytes, h.value.bytes)) = (hs'.map absH).map (fun f => (f.name, f.value)) := by
        simp [absH]
      rw [this, hd2]; simpa using hfs'
    · unfold Pending
      rw [hch']
      simp only [applyUpd, e0]
      simp only [peerCtx, abs] at hd3
      have h1 := congrArg Ctx.dyn hd3
      have h2 := congrArg Ctx.max hd3
      simp only at h1 h2
      rw [h1, h2]

end RFC
#print axioms RFC.roundtrip_block'
#print axioms RFC.setSize_ok
