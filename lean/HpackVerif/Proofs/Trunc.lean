import HpackVerif.Proofs.Prefix
import HpackVerif.Proofs.IntExtra
/-! C05: truncation. Every proper, non-empty prefix of the octets of a representation — cut inside an
    integer, inside a string's length, inside a string's payload, between name and value — is refused
    with the general decoding error, after any acceptable list of representations. -/
namespace RFC
open Impl
variable {own : Bool}

theorem take_append_lt {α : Type} (A B : List α) (k : Nat) (h : k < A.length) : (A ++ B).take k = A.take k := by
  rw [List.take_append_of_le_length (Nat.le_of_lt h)]

theorem take_append_ge {α : Type} (A B : List α) (k : Nat) (h : A.length ≤ k) :
    (A ++ B).take k = A ++ B.take (k - A.length) := by
  have : k = A.length + (k - A.length) := by omega
  rw [this, List.take_length_add_append]
  simp

/-- a length-prefixed string cut anywhere (also inside its length, also to nothing) is a decoding error -/
theorem readString_cut (cap : Option Nat) (hi : Nat) (hhi : hi % 2 ^ 7 = 0) (hhi2 : hi < 256) (P : Bytes) (z : Nat)
    (hok : IntOK cap 7 P.length z) (k : Nat) (hk : k < (intOctets 7 hi P.length z ++ P).length) :
    readString cap own ((intOctets 7 hi P.length z ++ P).take k) = .err .decoding := by
  by_cases h1 : k < (intOctets 7 hi P.length z).length
  · rw [take_append_lt _ _ _ h1]
    unfold readString
    rw [decodeInt_truncated cap 7 (by omega) (by omega) hi P.length z hhi hhi2 k h1]
    rfl
  · have hge : (intOctets 7 hi P.length z).length ≤ k := by omega
    rw [take_append_ge _ _ _ hge]
    have hj : k - (intOctets 7 hi P.length z).length < P.length := by
      simp only [List.length_append] at hk; omega
    have hdi := decodeInt_intOctets cap 7 (by omega) (by omega) hi P.length z hhi hhi2
      (P.take (k - (intOctets 7 hi P.length z).length)) hok
    unfold readString
    rw [hdi]
    simp only [bind]
    have hraw : ((List.drop (intOctets 7 hi P.length z).length
        (intOctets 7 hi P.length z ++ List.take (k - (intOctets 7 hi P.length z).length) P)).take P.length).length ≠ P.length := by
      simp only [List.drop_left, List.length_take]
      omega
    rw [if_pos hraw]

theorem readString_truncated (cap : Option Nat) (c : StrChoice) (s : Bytes) (hok : StrOK cap c s)
    (k : Nat) (hk : k < (strOctets c s).length) :
    readString cap own ((strOctets c s).take k) = .err .decoding := by
  unfold strOctets at hk ⊢
  unfold StrOK at hok
  cases hh : c.huff with
  | true =>
    simp only [hh, if_true] at hok hk ⊢
    exact readString_cut cap 0x80 (by decide) (by decide) _ c.z hok k hk
  | false =>
    simp only [hh, Bool.false_eq_true, if_false] at hok hk ⊢
    exact readString_cut cap 0 (by decide) (by decide) _ c.z hok k hk

/-- the literal branch once the name part has been consumed: what remains is "read the value, insert, return" -/
theorem decodeLiteral_after_name (cap : Option Nat) (st : DecState)
    (ix : Indexing) (nm : NameRef) (ch : Choice) (name : Bytes)
    (hname : resolveName (abs st) nm = some name)
    (hnok : match nm with
      | .idx i => 1 ≤ i ∧ IntOK cap ix.pfx i ch.zi
      | .lit n => StrOK cap ch.nameC n)
    (V : Bytes) :
    ∃ (nb : PyBuf) (c1 : Nat), nb.bytes = name ∧
      decodeLiteral cap own st.table
        ((match nm with
          | .idx i => intOctets ix.pfx ix.pat i ch.zi
          | .lit n => UInt8.ofNat ix.pat :: strOctets ch.nameC n) ++ V) (decide (ix = .incremental)) =
      (do let (value, c2) ← readString cap own V
          let t' ← if decide (ix = .incremental) then st.table.add nb value else pure st.table
          pure ((⟨nb, value, ix == .never⟩ : Header), c1 + c2, t') : Out (Header × Nat × Table)) := by
  obtain ⟨p1, p8, pmod, p256⟩ := pfx_range ix
  cases nm with
  | idx i =>
    obtain ⟨hi1, hiok⟩ := hnok
    simp only
    obtain ⟨tl, htl⟩ := intOctets_cons ix.pfx ix.pat i ch.zi
    have hple := prefixVal_le ix.pfx i
    obtain ⟨b256, b80, b40, b20, bval, b10⟩ := lit_bits ix (prefixVal ix.pfx i) hple
    have hpne : prefixVal ix.pfx i ≠ 0 := by
      rw [Ne, prefixVal_eq_zero _ _ p1]; omega
    have hdi := decodeInt_intOctets cap ix.pfx p1 p8 ix.pat i ch.zi pmod p256 V hiok
    have hdata : intOctets ix.pfx ix.pat i ch.zi ++ V
        = UInt8.ofNat (ix.pat + prefixVal ix.pfx i) :: (tl ++ V) := by rw [htl]; rfl
    simp only [resolveName] at hname
    cases hl : lookup (abs st) i with
    | none => rw [hl] at hname; simp at hname
    | some e =>
      rw [hl] at hname
      simp only [Option.map_some, Option.some.injEq] at hname
      obtain ⟨e', hg, he'⟩ := lookup_some st i e hl
      refine ⟨e'.1, (intOctets ix.pfx ix.pat i ch.zi).length, by rw [← hname, ← he']; rfl, ?_⟩
      unfold decodeLiteral
      rw [hdata]
      simp only
      rw [← hdata]
      have hb := toNat_ofNat_lt b256
      have htrip : (if decide (ix = .incremental) = true
            then ((UInt8.ofNat (ix.pat + prefixVal ix.pfx i)).toNat &&& 0x3F, 6, false)
            else ((UInt8.ofNat (ix.pat + prefixVal ix.pfx i)).toNat &&& 0x0F, 4,
                  decide ((UInt8.ofNat (ix.pat + prefixVal ix.pfx i)).toNat &&& 0x10 ≠ 0)))
          = (prefixVal ix.pfx i, ix.pfx, ix == .never) := by
        rw [hb]
        by_cases hinc : ix = .incremental
        · subst hinc; simp only [if_true, Indexing.pfx] at bval ⊢; simp [bval]
        · simp only [if_neg hinc] at bval
          have h10 := b10 hinc
          simp only [hinc, decide_false, Bool.false_eq_true, if_false, bval]
          cases ix <;> simp_all [Indexing.pfx]
      simp only [htrip, if_pos hpne, hdi, bind, hg, pure]
      have hdrop : List.drop (intOctets ix.pfx ix.pat i ch.zi).length (intOctets ix.pfx ix.pat i ch.zi ++ V) = V := by simp
      rw [hdrop]
  | lit n =>
    simp only at hnok ⊢
    simp only [resolveName, Option.some.injEq] at hname
    obtain ⟨b256, b80, b40, b20, bval, b10⟩ := lit_bits ix 0 (by omega)
    simp only [Nat.add_zero] at b256 b80 b40 b20 bval b10
    refine ⟨⟨n, !ch.nameC.huff && !own⟩, (strOctets ch.nameC n).length + 1, hname, ?_⟩
    unfold decodeLiteral
    simp only [List.cons_append]
    have hb := toNat_ofNat_lt b256
    have htrip : (if decide (ix = .incremental) = true
          then ((UInt8.ofNat ix.pat).toNat &&& 0x3F, 6, false)
          else ((UInt8.ofNat ix.pat).toNat &&& 0x0F, 4, decide ((UInt8.ofNat ix.pat).toNat &&& 0x10 ≠ 0)))
        = (0, ix.pfx, ix == .never) := by
      rw [hb]
      by_cases hinc : ix = .incremental
      · subst hinc; simp only [if_true, Indexing.pfx] at bval ⊢; simp [bval]
      · simp only [if_neg hinc] at bval
        have h10 := b10 hinc
        simp only [hinc, decide_false, Bool.false_eq_true, if_false, bval]
        cases ix <;> simp_all [Indexing.pfx]
    simp only [htrip, ne_eq, not_true_eq_false, if_false, bind, pure]
    rw [readString_strOctets cap ch.nameC n V hnok]
    simp only
    have hdrop : List.drop (strOctets ch.nameC n).length (strOctets ch.nameC n ++ V) = V := by simp
    rw [hdrop]

theorem take_cons_pos {α : Type} (b : α) (tl : List α) (k : Nat) (hk : 1 ≤ k) :
    (b :: tl).take k = b :: tl.take (k - 1) := by
  cases k with
  | zero => omega
  | succ k => simp

/-- **one representation cut short**: every proper non-empty prefix of the octets of a representation that
    would have been fine in this context is refused with the general decoding error -/
theorem decodeField_truncated (cap : Option Nat) (st : DecState) (r : Rep) (ch : Choice)
    (hok : RepOK cap r ch) (seen : Bool)
    (hgood : ∃ res, interpField (abs st) seen r = .ok res)
    (k : Nat) (hk1 : 1 ≤ k) (hk : k < (reprOctets r ch).length) :
    decodeField cap own st ((reprOctets r ch).take k) seen = .err .decoding := by
  cases r with
  | indexed i =>
    obtain ⟨hiok, _⟩ := hok
    simp only [reprOctets] at hk ⊢
    obtain ⟨tl, htl⟩ := intOctets_cons 7 0x80 i ch.zi
    have h127 : (2:Nat) ^ 7 - 1 = 127 := by decide
    have hple := prefixVal_le 7 i
    have hb := toNat_ofNat_lt (show 0x80 + prefixVal 7 i < 256 by omega)
    have hbit := bits_idx ⟨prefixVal 7 i, by omega⟩
    simp only at hbit
    have hdt := decodeInt_truncated cap 7 (by omega) (by omega) 0x80 i ch.zi (by decide) (by decide) k hk
    have hdata : (intOctets 7 0x80 i ch.zi).take k = UInt8.ofNat (0x80 + prefixVal 7 i) :: tl.take (k - 1) := by
      rw [htl]; exact take_cons_pos _ _ _ hk1
    unfold decodeField
    rw [hdata]; dsimp only; rw [← hdata, hb, if_pos hbit, hdt]; rfl
  | sizeUpdate n =>
    simp only [reprOctets] at hk ⊢
    obtain ⟨tl, htl⟩ := intOctets_cons 5 0x20 n ch.zi
    have h31 : (2:Nat) ^ 5 - 1 = 31 := by decide
    have hple := prefixVal_le 5 n
    have hb := toNat_ofNat_lt (show 0x20 + prefixVal 5 n < 256 by omega)
    obtain ⟨u80, u40, u20⟩ := bits_upd ⟨prefixVal 5 n, by omega⟩
    simp only at u80 u40 u20
    have hdt := decodeInt_truncated cap 5 (by omega) (by omega) 0x20 n ch.zi (by decide) (by decide) k hk
    have hdata : (intOctets 5 0x20 n ch.zi).take k = UInt8.ofNat (0x20 + prefixVal 5 n) :: tl.take (k - 1) := by
      rw [htl]; exact take_cons_pos _ _ _ hk1
    have h80 : ¬ (0x20 + prefixVal 5 n) &&& 0x80 ≠ 0 := fun h => h u80
    have hor : ¬ ((0x20 + prefixVal 5 n) &&& 0x40 ≠ 0 ∨ (0x20 + prefixVal 5 n) &&& 0x20 = 0) := by
      intro h; rcases h with h | h
      · exact h u40
      · exact u20 h
    unfold decodeField
    rw [hdata]; dsimp only; rw [← hdata, hb, if_neg h80, if_neg hor]
    cases seen with
    | true => rfl
    | false => simp only [Bool.false_eq_true, if_false]; rw [hdt]; rfl
  | literal ix nm v =>
    obtain ⟨p1, p8, pmod, p256⟩ := pfx_range ix
    -- the name resolves (the full representation is fine here)
    have hname : ∃ name, resolveName (abs st) nm = some name := by
      obtain ⟨res, hres⟩ := hgood
      simp only [interpField] at hres
      cases hn : resolveName (abs st) nm with
      | none => rw [hn] at hres; cases hres
      | some name => exact ⟨name, rfl⟩
    obtain ⟨name, hname⟩ := hname
    -- first octet and dispatch to the literal branch
    obtain ⟨b, tl, hcons⟩ := reprOctets_cons (.literal ix nm v) ch
    have hfirst : ∃ x, x ≤ 2 ^ ix.pfx - 1 ∧ b = UInt8.ofNat (ix.pat + x) := by
      cases nm with
      | idx i =>
        obtain ⟨tl', h⟩ := intOctets_cons ix.pfx ix.pat i ch.zi
        rw [reprOctets, h] at hcons
        simp only [List.cons_append, List.cons.injEq] at hcons
        exact ⟨prefixVal ix.pfx i, prefixVal_le _ _, hcons.1.symm⟩
      | lit n =>
        rw [reprOctets] at hcons
        simp only [List.cons.injEq] at hcons
        exact ⟨0, by omega, by rw [← hcons.1]; rfl⟩
    obtain ⟨x, hx, rfl⟩ := hfirst
    obtain ⟨b256, b80, b40, b20, _, _⟩ := lit_bits ix x hx
    have hb := toNat_ofNat_lt b256
    have hdata : (reprOctets (.literal ix nm v) ch).take k = UInt8.ofNat (ix.pat + x) :: tl.take (k - 1) := by
      rw [hcons]; exact take_cons_pos _ _ _ hk1
    have h80 : ¬ (ix.pat + x) &&& 0x80 ≠ 0 := fun h => h b80
    have hor : (ix.pat + x) &&& 0x40 ≠ 0 ∨ (ix.pat + x) &&& 0x20 = 0 := by
      by_cases hinc : ix = .incremental
      · left; exact b40.mpr hinc
      · right; exact b20 hinc
    have hdecide : decide ((ix.pat + x) &&& 0x40 ≠ 0) = decide (ix = .incremental) := by
      by_cases hinc : ix = .incremental
      · rw [decide_eq_true (b40.mpr hinc), decide_eq_true hinc]
      · have : ¬ (ix.pat + x) &&& 0x40 ≠ 0 := fun h => hinc (b40.mp h)
        rw [decide_eq_false this, decide_eq_false hinc]
    have hdec : decodeField cap own st ((reprOctets (.literal ix nm v) ch).take k) seen =
        (do let (h, consumed, t') ← decodeLiteral cap own st.table ((reprOctets (.literal ix nm v) ch).take k)
                                      (decide (ix = .incremental))
            pure (some h, consumed, { st with table := t' })) := by
      unfold decodeField
      rw [hdata]; dsimp only; rw [← hdata, hb, if_neg h80, if_pos hor, hdecide]
    rw [hdec]
    -- it is enough that the literal branch fails with the decoding error
    suffices hl : decodeLiteral cap own st.table ((reprOctets (.literal ix nm v) ch).take k) (decide (ix = .incremental))
        = .err .decoding by rw [hl]; rfl
    cases nm with
    | idx i =>
      obtain ⟨hi1, hiok, hismall, hvok⟩ := hok
      simp only [reprOctets] at hk ⊢
      by_cases hcut : k < (intOctets ix.pfx ix.pat i ch.zi).length
      · -- cut inside the index
        rw [take_append_lt _ _ _ hcut]
        have hdt := decodeInt_truncated cap ix.pfx p1 p8 ix.pat i ch.zi pmod p256 k hcut
        obtain ⟨tl', htl'⟩ := intOctets_cons ix.pfx ix.pat i ch.zi
        have hple := prefixVal_le ix.pfx i
        obtain ⟨c256, _, _, _, cval, c10⟩ := lit_bits ix (prefixVal ix.pfx i) hple
        have hpne : prefixVal ix.pfx i ≠ 0 := by
          rw [Ne, prefixVal_eq_zero _ _ p1]; omega
        have hd2 : (intOctets ix.pfx ix.pat i ch.zi).take k = UInt8.ofNat (ix.pat + prefixVal ix.pfx i) :: tl'.take (k - 1) := by
          rw [htl']; exact take_cons_pos _ _ _ hk1
        have hb2 := toNat_ofNat_lt c256
        have htrip : (if decide (ix = .incremental) = true
              then ((UInt8.ofNat (ix.pat + prefixVal ix.pfx i)).toNat &&& 0x3F, 6, false)
              else ((UInt8.ofNat (ix.pat + prefixVal ix.pfx i)).toNat &&& 0x0F, 4,
                    decide ((UInt8.ofNat (ix.pat + prefixVal ix.pfx i)).toNat &&& 0x10 ≠ 0)))
            = (prefixVal ix.pfx i, ix.pfx, ix == .never) := by
          rw [hb2]
          by_cases hinc : ix = .incremental
          · subst hinc; simp only [if_true, Indexing.pfx] at cval ⊢; simp [cval]
          · simp only [if_neg hinc] at cval
            have h10 := c10 hinc
            simp only [hinc, decide_false, Bool.false_eq_true, if_false, cval]
            cases ix <;> simp_all [Indexing.pfx]
        unfold decodeLiteral
        rw [hd2]
        simp only
        rw [← hd2]
        simp only [htrip, if_pos hpne, hdt, bind]
      · -- the index is complete; the value is cut
        have hge : (intOctets ix.pfx ix.pat i ch.zi).length ≤ k := by omega
        rw [take_append_ge _ _ _ hge]
        obtain ⟨nb, c1, _, hlit⟩ := decodeLiteral_after_name (own := own) cap st ix (.idx i) ch name hname ⟨hi1, hiok⟩
          ((strOctets ch.valueC v).take (k - (intOctets ix.pfx ix.pat i ch.zi).length))
        simp only at hlit
        rw [hlit]
        have hj : k - (intOctets ix.pfx ix.pat i ch.zi).length < (strOctets ch.valueC v).length := by
          simp only [List.length_append] at hk; omega
        rw [readString_truncated cap ch.valueC v hvok _ hj]
        rfl
    | lit n =>
      obtain ⟨hnok, hvok⟩ := hok
      simp only [reprOctets] at hk ⊢
      -- data = pat :: (S1 ++ S2); k ≥ 1
      have hk' : k - 1 < (strOctets ch.nameC n ++ strOctets ch.valueC v).length := by
        simp only [List.length_cons] at hk; omega
      rw [take_cons_pos _ _ _ hk1]
      by_cases hcut : k - 1 < (strOctets ch.nameC n).length
      · -- cut inside the name string
        rw [take_append_lt _ _ _ hcut]
        obtain ⟨c256, _, _, _, cval, c10⟩ := lit_bits ix 0 (by omega)
        simp only [Nat.add_zero] at c256 cval c10
        have hb2 := toNat_ofNat_lt c256
        have htrip : (if decide (ix = .incremental) = true
              then ((UInt8.ofNat ix.pat).toNat &&& 0x3F, 6, false)
              else ((UInt8.ofNat ix.pat).toNat &&& 0x0F, 4, decide ((UInt8.ofNat ix.pat).toNat &&& 0x10 ≠ 0)))
            = (0, ix.pfx, ix == .never) := by
          rw [hb2]
          by_cases hinc : ix = .incremental
          · subst hinc; simp only [if_true, Indexing.pfx] at cval ⊢; simp [cval]
          · simp only [if_neg hinc] at cval
            have h10 := c10 hinc
            simp only [hinc, decide_false, Bool.false_eq_true, if_false, cval]
            cases ix <;> simp_all [Indexing.pfx]
        unfold decodeLiteral
        simp only [htrip, ne_eq, not_true_eq_false, if_false, bind]
        rw [readString_truncated cap ch.nameC n hnok _ hcut]
      · -- the name is complete; the value is cut
        have hge : (strOctets ch.nameC n).length ≤ k - 1 := by omega
        rw [take_append_ge _ _ _ hge]
        obtain ⟨nb, c1, _, hlit⟩ := decodeLiteral_after_name (own := own) cap st ix (.lit n) ch name hname hnok
          ((strOctets ch.valueC v).take (k - 1 - (strOctets ch.nameC n).length))
        simp only [List.cons_append] at hlit
        rw [hlit]
        have hj : k - 1 - (strOctets ch.nameC n).length < (strOctets ch.valueC v).length := by
          simp only [List.length_append] at hk'; omega
        rw [readString_truncated cap ch.valueC v hvok _ hj]
        rfl

/-- an acceptable prefix of representations is consumed, whatever follows -/
theorem decodeLoop_good_prefix (cap : Option Nat) (fuel : Nat) (st : DecState) (hinv : Inv st.table)
    (rcs : List (Rep × Choice)) (hok : ∀ rc ∈ rcs, RepOK cap rc.1 rc.2) (rest : Bytes)
    (hfuel : (blockOctets rcs ++ rest).length < fuel) (hs : List Header) (infl : Nat)
    (fs : List Field) (size : Nat) (ctx' : Ctx)
    (hp : interpPrefix (abs st) (rcs.map (·.1)) (hs.map absH) infl = .ok (fs, size, ctx')) :
    ∃ fuel' st' hs', rest.length < fuel' ∧ Inv st'.table ∧ abs st' = ctx' ∧ hs'.map absH = fs ∧
      decodeLoop cap own fuel st (blockOctets rcs ++ rest) hs infl = decodeLoop cap own fuel' st' rest hs' size := by
  induction rcs generalizing fuel st hs infl with
  | nil =>
    simp only [List.map_nil, interpPrefix, Except.ok.injEq, Prod.mk.injEq] at hp
    obtain ⟨rfl, rfl, rfl⟩ := hp
    exact ⟨fuel, st, hs, by simpa [blockOctets] using hfuel, hinv, rfl, rfl, by simp [blockOctets]⟩
  | cons rc rcs ih =>
    obtain ⟨r, ch⟩ := rc
    cases fuel with
    | zero => simp at hfuel
    | succ fuel =>
      obtain ⟨b, tl, hcons⟩ := reprOctets_cons r ch
      have hblock : blockOctets ((r, ch) :: rcs) ++ rest = reprOctets r ch ++ (blockOctets rcs ++ rest) := by
        simp [blockOctets, List.append_assoc]
      have hdata : reprOctets r ch ++ (blockOctets rcs ++ rest) = b :: (tl ++ (blockOctets rcs ++ rest)) := by
        rw [hcons]; rfl
      have hfield := decodeField_reprOctets (own := own) cap st hinv r ch (hok (r, ch) (by simp))
        (blockOctets rcs ++ rest) (!hs.isEmpty)
      have hseen : (!(hs.map absH).isEmpty) = (!hs.isEmpty) := by cases hs <;> rfl
      have hdrop : List.drop (reprOctets r ch).length (reprOctets r ch ++ (blockOctets rcs ++ rest))
          = blockOctets rcs ++ rest := by simp
      have hfuel' : (blockOctets rcs ++ rest).length < fuel := by
        rw [hblock, List.length_append, hcons] at hfuel
        simp only [List.length_cons] at hfuel; omega
      have hok' : ∀ rc ∈ rcs, RepOK cap rc.1 rc.2 := fun rc h => hok rc (by simp [h])
      rw [hblock, hdata, decodeLoop_cons, ← hdata]
      simp only [List.map_cons, interpPrefix, hseen] at hp
      cases hif : interpField (abs st) (!hs.isEmpty) r with
      | error e' => simp only [hif] at hp; cases hp
      | ok res =>
        obtain ⟨of, c2⟩ := res
        rw [hif] at hfield
        simp only [hif] at hp
        obtain ⟨oh, st', hd, hoh, habs, hinv'⟩ := hfield
        rw [hd]
        cases oh with
        | none =>
          simp only [Option.map_none] at hoh
          subst hoh
          simp only [hdrop]
          simp only at hp
          rw [← habs] at hp
          exact ih fuel st' hinv' hok' hfuel' hs infl hp
        | some h =>
          simp only [Option.map_some] at hoh
          subst hoh
          simp only [hdrop]
          simp only at hp
          by_cases hover : infl + entrySize (h.name, h.value) > st'.listLimit
          · have hover' : infl + esize ((absH h).name, (absH h).value) > c2.listLimit := by
              rw [← habs]; exact hover
            rw [if_pos hover'] at hp; cases hp
          · have hover' : ¬ infl + esize ((absH h).name, (absH h).value) > c2.listLimit := by
              rw [← habs]; exact hover
            rw [if_neg hover'] at hp
            rw [if_neg hover]
            rw [← habs] at hp
            exact ih fuel st' hinv' hok' hfuel' (h :: hs) (infl + entrySize (h.name, h.value)) hp

/-- **C05, truncation at block level**: after any acceptable list of representations, a further
    representation (fine in that context) cut short at any octet boundary strictly inside it makes the
    block fail with the general decoding error -/
theorem decode_truncated (cap : Option Nat) (st : DecState) (hinv : Inv st.table)
    (good : List (Rep × Choice)) (hokg : ∀ rc ∈ good, RepOK cap rc.1 rc.2)
    (r : Rep) (ch : Choice) (hokr : RepOK cap r ch)
    (fs : List Field) (size : Nat) (ctx' : Ctx)
    (hg : interpPrefix (abs st) (good.map (·.1)) [] 0 = .ok (fs, size, ctx'))
    (hr : ∃ res, interpField ctx' (!fs.isEmpty) r = .ok res)
    (k : Nat) (hk1 : 1 ≤ k) (hk : k < (reprOctets r ch).length) :
    (decode cap own st (blockOctets good ++ (reprOctets r ch).take k)).1 = .err .decoding := by
  unfold decode
  obtain ⟨fuel', st', hs', hf', hinv', habs, hhs, hrun⟩ :=
    decodeLoop_good_prefix (own := own) cap ((blockOctets good ++ (reprOctets r ch).take k).length + 1) st hinv good hokg
      ((reprOctets r ch).take k) (by omega) [] 0 fs size ctx'
      (by simpa using hg)
  rw [hrun]
  obtain ⟨b, tl, hcons⟩ := reprOctets_cons r ch
  have hne : (reprOctets r ch).take k = b :: tl.take (k - 1) := by rw [hcons]; exact take_cons_pos _ _ _ hk1
  cases fuel' with
  | zero => simp at hf'
  | succ fuel' =>
    have hseen : (!hs'.isEmpty) = (!fs.isEmpty) := by rw [← hhs]; cases hs' <;> rfl
    have hft := decodeField_truncated (own := own) cap st' r ch hokr (!hs'.isEmpty)
      (by rw [habs, hseen]; exact hr) k hk1 hk
    rw [hne, decodeLoop_cons, ← hne, hft]

end RFC
