import HpackVerif.Proofs.Complete1
namespace RFC
open Impl
variable {own : Bool}

theorem nibbleBits_length (x : Nat) : (nibbleBits x).length = 4 := by simp [nibbleBits, bitsOf]

theorem bytesBits_length (w : Bytes) : (bytesBits w).length = 8 * w.length := by
  induction w with
  | nil => rfl
  | cons b bs ih =>
    simp only [bytesBits, List.flatMap_cons, List.length_append, nibbleBits_length, List.length_cons] at ih ⊢
    omega

theorem byte_bits_inj (a b : Fin 256) (h : bitsOf a.val 8 = bitsOf b.val 8) : a = b := by
  have := congrArg bitsToNat h
  rw [bitsToNat_bitsOf, bitsToNat_bitsOf] at this
  have h256 : (2:Nat) ^ 8 = 256 := by decide
  rw [h256, Nat.mod_eq_of_lt a.isLt, Nat.mod_eq_of_lt b.isLt] at this
  exact Fin.ext this

theorem bytesBits_inj (a b : Bytes) (h : bytesBits a = bytesBits b) : a = b := by
  induction a generalizing b with
  | nil =>
    cases b with
    | nil => rfl
    | cons y ys => have := congrArg List.length h; simp [bytesBits_length] at this
  | cons x xs ih =>
    cases b with
    | nil => have := congrArg List.length h; simp [bytesBits_length] at this
    | cons y ys =>
      have hx := byte_bits ⟨x.toNat, x.toNat_lt⟩
      have hy := byte_bits ⟨y.toNat, y.toNat_lt⟩
      simp only [bytesBits, List.flatMap_cons] at h
      simp only at hx hy
      rw [hx, hy] at h
      have hl : (bitsOf x.toNat 8).length = (bitsOf y.toNat 8).length := by simp [bitsOf_length]
      obtain ⟨h1, h2⟩ := List.append_inj h hl
      have := byte_bits_inj ⟨x.toNat, x.toNat_lt⟩ ⟨y.toNat, y.toNat_lt⟩ h1
      have hxy : x = y := UInt8.toNat_inj.mp (by simpa using congrArg Fin.val this)
      rw [hxy, ih ys h2]

/-- an accepted Huffman payload is exactly what the encoder would have produced for the decoded string -/
theorem huffDecode_reencode (w : Bytes) (syms : List Nat) (h : Impl.huffDecode Gen.huffTable w = .ok syms) :
    w = Impl.huffEncode Gen.codes (syms.map UInt8.ofNat) ∧ (syms.map UInt8.ofNat).map (·.toNat) = syms := by
  rw [gen_impl_huffDecode_iff] at h
  obtain ⟨hs, k, hk, hbits⟩ := h
  have hmap : (syms.map UInt8.ofNat).map (·.toNat) = syms := by
    rw [List.map_map]
    conv => rhs; rw [← List.map_id syms]
    apply List.map_congr_left
    intro x hx
    simp only [Function.comp, id]
    exact toNat_ofNat_lt (hs x hx)
  refine ⟨?_, hmap⟩
  apply bytesBits_inj
  obtain ⟨he, hp⟩ := gen_huffEncode_bits (syms.map UInt8.ofNat)
  have hlen := congrArg List.length hbits
  rw [bytesBits_length, List.length_append, List.length_replicate] at hlen
  have hkk : k = (8 - (huffBits Gen.codes syms).length % 8) % 8 := by omega
  rw [he, hmap, hbits, hkk]

set_option maxRecDepth 100000 in
theorem hi7 : ∀ b : Fin 256, b.val - (b.val &&& (2 ^ 7 - 1)) = if b.val &&& 0x80 ≠ 0 then 0x80 else 0 := by
  decide +kernel

/-- C05: an accepted string literal is `strOctets` of the returned string under some choice -/
theorem readString_complete (cap : Option Nat) (data : Bytes) {s : PyBuf} {k : Nat}
    (h : readString cap own data = .ok (s, k)) :
    ∃ c : StrChoice, data.take k = strOctets c s.bytes ∧ k ≤ data.length ∧ 1 ≤ k ∧ StrOK cap c s.bytes ∧
      s.view = (!c.huff && !own) := by
  unfold readString at h
  cases hd : decodeInt cap data 7 with
  | err e => simp [hd, bind] at h
  | esc x => simp [hd, bind] at h
  | ok r =>
    obtain ⟨length, consumed⟩ := r
    simp only [hd, bind] at h
    cases data with
    | nil => simp [decodeInt] at hd
    | cons b0 rest =>
      obtain ⟨z, htake, hkle, hk1, hiok, _⟩ := decodeInt_complete cap b0 rest 7 (by omega) (by omega) hd
      have hhi := hi7 ⟨b0.toNat, b0.toNat_lt⟩
      simp only at hhi
      rw [hhi] at htake
      by_cases hlen : ((List.drop consumed (b0 :: rest)).take length).length ≠ length
      · rw [if_pos hlen] at h; simp at h
      · rw [if_neg hlen] at h
        have hlen' : ((List.drop consumed (b0 :: rest)).take length).length = length := by
          simpa using hlen
        have hroom : consumed + length ≤ (b0 :: rest).length := by
          have := List.length_take_le' length (List.drop consumed (b0 :: rest))
          rw [List.length_drop] at this
          have h2 : ((List.drop consumed (b0 :: rest)).take length).length
              = min length ((b0 :: rest).length - consumed) := by simp [List.length_take]
          omega
        have hsplit : (b0 :: rest).take (consumed + length)
            = (b0 :: rest).take consumed ++ (List.drop consumed (b0 :: rest)).take length := by
          rw [List.take_add]
        dsimp only at h
        by_cases hH : b0.toNat &&& 0x80 ≠ 0
        · rw [if_pos hH] at h htake
          generalize hraw : (List.drop consumed (b0 :: rest)).take length = raw at *
          unfold huffDecodeBuf at h
          cases hhd : Impl.huffDecode Gen.huffTable raw with
          | ok syms =>
            simp only [hhd, pure, Out.ok.injEq, Prod.mk.injEq] at h
            obtain ⟨rfl, rfl⟩ := h
            obtain ⟨hre, _⟩ := huffDecode_reencode raw syms hhd
            refine ⟨⟨true, z⟩, ?_, hroom, by omega, ?_, by simp⟩
            · rw [hsplit, htake]
              simp only [strOctets, if_true]
              rw [← hre, hlen']
            · simp only [StrOK, if_true]
              rw [← hre, hlen']; exact hiok
          | decodingError => simp [hhd] at h
          | indexError => simp [hhd] at h
        · rw [if_neg hH] at h htake
          simp only [pure, Out.ok.injEq, Prod.mk.injEq] at h
          obtain ⟨rfl, rfl⟩ := h
          refine ⟨⟨false, z⟩, ?_, hroom, by omega, ?_, by simp⟩
          · rw [hsplit, htake]
            simp only [strOctets, Bool.false_eq_true, if_false]
            rw [hlen']
          · simp only [StrOK, Bool.false_eq_true, if_false]
            rw [hlen']; exact hiok

end RFC
#print axioms RFC.readString_complete
