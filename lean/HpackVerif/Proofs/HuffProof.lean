import HpackVerif.Impl.Huff
import HpackVerif.Proofs.DataObligations

namespace Ref

theorem bits_out (root : HTree) (p a : List Bool) (out : List Nat) :
    bits root p a out = (bits root p a []).map (fun r => (r.1, out ++ r.2)) := by
  induction a generalizing p out with
  | nil => simp [bits]
  | cons b bs ih =>
    rw [bits, bits]
    cases h : root.descend? (p ++ [b]) with
    | none => simp
    | some t =>
      cases t with
      | leaf s =>
        simp only
        split
        · simp
        · rw [ih [] (out ++ [s]), ih [] ([] ++ [s])]
          cases bits root [] bs [] <;> simp [List.append_assoc]
      | node z o => simp only; exact ih _ _

theorem bits_append (root : HTree) (p a b : List Bool) (out : List Nat) :
    bits root p (a ++ b) out = (bits root p a out).bind (fun r => bits root r.1 b r.2) := by
  induction a generalizing p out with
  | nil => simp [bits]
  | cons x xs ih =>
    simp only [List.cons_append]
    rw [bits, bits]
    cases h : root.descend? (p ++ [x]) with
    | none => simp
    | some t =>
      cases t with
      | leaf s =>
        simp only
        split
        · simp
        · exact ih _ _
      | node z o => simp only; exact ih _ _
end Ref

section Lift
variable {root : HTree} {paths : List (List Bool)} {tbl : Impl.Tbl}

theorem entry_of_tableOK (h : tableOK root paths tbl = true) {s x : Nat} (hs : s < 256) (hx : x < 16) :
    ∃ row e, tbl[s]? = some row ∧ row[x]? = some e ∧ entryOK root paths s x e = true := by
  simp only [tableOK, Bool.and_eq_true, List.all_eq_true, List.mem_range, beq_iff_eq] at h
  obtain ⟨⟨⟨hl, _⟩, _⟩, hall⟩ := h
  have hr := hall s hs
  simp only [rowOK, Bool.and_eq_true, List.all_eq_true, List.mem_range, beq_iff_eq] at hr
  obtain ⟨hrl, hre⟩ := hr
  have hs' : s < tbl.length := by omega
  have hrow : tbl.getD s [] = tbl[s] := by simp [List.getD, List.getElem?_eq_getElem hs']
  rw [hrow] at hrl hre
  have hx' : x < (tbl[s]).length := by omega
  refine ⟨tbl[s], (tbl[s])[x], by simp [List.getElem?_eq_getElem hs'], by simp [List.getElem?_eq_getElem hx'], ?_⟩
  have := hre x hx
  simpa [List.getD, List.getElem?_eq_getElem hx'] using this

theorem nibble_sim (h : tableOK root paths tbl = true) {s x : Nat} (hs : s < 256) (hx : x < 16)
    (out : List Nat) :
    match Ref.bits root (paths.getD s []) (nibbleBits x) out with
    | none => Impl.nibble tbl s x out = .decodingError
    | some (p', out') => ∃ s' fl, Impl.nibble tbl s x out = .ok (s', fl, out') ∧ s' < 256 ∧
        paths.getD s' [] = p' ∧ ((fl &&& 1 != 0) = Ref.accept p') := by
  obtain ⟨row, e, hrow, he, hok⟩ := entry_of_tableOK h hs hx
  obtain ⟨s', fl, ob⟩ := e
  rw [Ref.bits_out]
  unfold entryOK at hok
  unfold Impl.nibble
  simp only [hrow, he]
  cases hb : Ref.bits root (paths.getD s []) (nibbleBits x) [] with
  | none =>
    simp only [hb] at hok
    simp only [Option.map_none]
    simp [hok]
  | some r =>
    obtain ⟨p', outs⟩ := r
    simp only [hb, Bool.and_eq_true, beq_iff_eq, decide_eq_true_eq] at hok
    obtain ⟨⟨⟨⟨hf, hem⟩, hlt⟩, hp⟩, hacc⟩ := hok
    simp only [Option.map_some]
    have hf' : ¬ (fl &&& 4 != 0) = true := by simp [hf]
    simp only [hf', if_false]
    match outs, hem with
    | [], hem =>
      have : ¬ (fl &&& 2 != 0) = true := by simpa using hem
      simp only [this, if_false]
      exact ⟨s', fl, by simp, hlt, hp, hacc⟩
    | [sym], hem =>
      simp only [Bool.and_eq_true, beq_iff_eq] at hem
      obtain ⟨h2, hsym⟩ := hem
      simp only [h2, if_true]
      exact ⟨s', fl, by simp [hsym], hlt, hp, hacc⟩

theorem loop_sim (h : tableOK root paths tbl = true) (w : Bytes) {s : Nat} (hs : s < 256)
    (fl : Nat) (out : List Nat) :
    match Ref.bits root (paths.getD s []) (bytesBits w) out with
    | none => Impl.loop tbl w s fl out = .decodingError
    | some (p', out') => ∃ fl', Impl.loop tbl w s fl out = .ok (fl', out') ∧
        (w ≠ [] → (fl' &&& 1 != 0) = Ref.accept p') := by
  induction w generalizing s fl out with
  | nil => simp [bytesBits, Ref.bits, Impl.loop]
  | cons b bs ih =>
    have hhi : b.toNat / 16 < 16 := by have := b.toNat_lt; omega
    have hlo : b.toNat % 16 < 16 := by omega
    have e : bytesBits (b :: bs) = nibbleBits (b.toNat / 16) ++ (nibbleBits (b.toNat % 16) ++ bytesBits bs) := by
      simp [bytesBits]
    rw [e, Ref.bits_append]
    have h1 := nibble_sim h hs hhi out
    unfold Impl.loop
    cases hb1 : Ref.bits root (paths.getD s []) (nibbleBits (b.toNat / 16)) out with
    | none => simp only [hb1] at h1; simp [h1]
    | some r1 =>
      obtain ⟨p1, o1⟩ := r1
      simp only [hb1] at h1
      obtain ⟨s1, f1, hn1, hs1, hp1, _⟩ := h1
      simp only [hn1, Option.bind_some]
      rw [Ref.bits_append]
      have h2 := nibble_sim h hs1 hlo o1
      rw [hp1] at h2
      cases hb2 : Ref.bits root p1 (nibbleBits (b.toNat % 16)) o1 with
      | none => simp only [hb2] at h2; simp [h2]
      | some r2 =>
        obtain ⟨p2, o2⟩ := r2
        simp only [hb2] at h2
        obtain ⟨s2, f2, hn2, hs2, hp2, hacc2⟩ := h2
        simp only [hn2, Option.bind_some]
        have ih' := ih hs2 f2 o2
        rw [hp2] at ih'
        cases hb3 : Ref.bits root p2 (bytesBits bs) o2 with
        | none => simp only [hb3] at ih'; simpa using ih'
        | some r3 =>
          obtain ⟨p3, o3⟩ := r3
          simp only [hb3] at ih'
          obtain ⟨fl', hl, hacc⟩ := ih'
          refine ⟨fl', hl, fun _ => ?_⟩
          by_cases hbs : bs = []
          · subst hbs
            simp only [bytesBits, List.flatMap_nil, Ref.bits, Option.some.injEq, Prod.mk.injEq] at hb3
            simp only [Impl.loop, Impl.Res.ok.injEq, Prod.mk.injEq] at hl
            rw [← hl.1, ← hb3.1]; exact hacc2
          · exact hacc hbs

/-- the nibble automaton of the implementation computes exactly the code-tree walk, for every input -/
theorem huffDecode_eq_ref (h : tableOK root paths tbl = true) (w : Bytes) :
    Impl.huffDecode tbl w = match Ref.huffDecode root w with
      | some o => .ok o
      | none => .decodingError := by
  have hp0 : paths.getD 0 [] = [] := by
    simp only [tableOK, Bool.and_eq_true, beq_iff_eq] at h
    obtain ⟨⟨⟨_, hl⟩, h0⟩, _⟩ := h
    have : 0 < paths.length := by omega
    simp [List.getD, List.getElem?_eq_getElem this] at h0 ⊢
    exact h0
  unfold Impl.huffDecode Ref.huffDecode
  cases w with
  | nil => simp [bytesBits, Ref.bits, Ref.accept]
  | cons b bs =>
    have hl := loop_sim h (b :: bs) (s := 0) (by omega) 0 []
    rw [hp0] at hl
    simp only [List.isEmpty_cons, Bool.false_eq_true, if_false]
    cases hb : Ref.bits root [] (bytesBits (b :: bs)) [] with
    | none => simp only [hb] at hl; simp [hl]
    | some r =>
      obtain ⟨p, o⟩ := r
      simp only [hb] at hl
      obtain ⟨fl', hloop, hacc⟩ := hl
      have hacc := hacc (by simp)
      simp only [hloop]
      cases ha : Ref.accept p <;> simp [ha] at hacc ⊢ <;> simp [hacc]
end Lift

theorem gen_huffDecode_eq_ref (w : Bytes) :
    Impl.huffDecode Gen.huffTable w = match Ref.huffDecode Gen.tree w with
      | some o => .ok o
      | none => .decodingError :=
  huffDecode_eq_ref gen_table_ok w

#print axioms gen_huffDecode_eq_ref
