import HpackVerif.Proofs.SearchProof
namespace RFC
open Impl

theorem or_hi (N hi p : Nat) (hhi : hi % 2 ^ N = 0) (hp : p < 2 ^ N) : p ||| hi = hi + p := by
  obtain ⟨q, hq⟩ := Nat.dvd_of_mod_eq_zero hhi
  rw [hq, Nat.or_comm, ← Nat.two_pow_add_eq_or_of_lt hp]

theorem orFirst_encodeInt (n N hi : Nat) (hN1 : 1 ≤ N) (hN8 : N ≤ 8) (hhi : hi % 2 ^ N = 0) :
    orFirst (encodeInt n N) hi = intOctets N hi n 0 := by
  rw [encodeInt_eq]
  have hpos : 0 < 2 ^ N := Nat.two_pow_pos N
  have hpow : 2 ^ N ≤ 256 := by
    calc 2 ^ N ≤ 2 ^ 8 := Nat.pow_le_pow_right (by omega) hN8
      _ = 256 := by decide
  unfold intOctets
  by_cases hv : n < 2 ^ N - 1
  · simp only [hv, if_true, orFirst, Nat.zero_add]
    rw [toNat_ofNat_lt (by omega), or_hi N hi n hhi (by omega)]
  · simp only [hv, if_false, orFirst, Nat.zero_add]
    rw [toNat_ofNat_lt (by omega), or_hi N hi (2 ^ N - 1) hhi (by omega)]

theorem encString_eq (huff : Bool) (s : Bytes) : encString huff s = strOctets ⟨huff, 0⟩ s := by
  unfold encString strOctets
  cases huff with
  | true => simp only [if_true]; rw [orFirst_encodeInt _ 7 0x80 (by omega) (by omega) (by decide)]
  | false => simp only [Bool.false_eq_true, if_false]; rw [encodeInt_eq]

theorem lookup_dyn (c1 c2 : Ctx) (h : c1.dyn = c2.dyn) (i : Nat) : lookup c1 i = lookup c2 i := by
  unfold lookup; rw [h]

def ixOf (sensitive : Bool) : Indexing := if sensitive then .never else .incremental
def ch0 (huff : Bool) : Choice := ⟨0, ⟨huff, 0⟩, ⟨huff, 0⟩⟩

theorem add_resized (t : Table) (n v : PyBuf) (t' : Table) (h : t.add n v = .ok t') : t'.resized = t.resized := by
  unfold Table.add at h
  dsimp only at h
  by_cases hb : entrySize (n, v) > t.maxsize
  · rw [if_pos hb] at h; simp only [Out.ok.injEq] at h; rw [← h]
  · rw [if_neg hb] at h
    unfold Table.shrink at h
    split at h
    · simp only [Out.ok.injEq] at h; rw [← h]
    · simp at h
    · simp at h

/-- the representation the encoder chooses for one header on table `t` -/
def chosenRep (strict : Bool) (t : Table) (name value : Bytes) (sensitive : Bool) : Rep :=
  match t.search name value with
  | none => .literal (ixOf sensitive) (.lit name) value
  | some (index, perfect) =>
    if perfect ∧ (strict ∨ !value.isEmpty) then .indexed index
    else .literal (ixOf sensitive) (.idx index) value

/-- C03/C15 (one field): what `Encoder.add` emits is the octets of `chosenRep`, whose RFC meaning on a
    peer holding the same table is exactly the header, and the encoder's table afterwards is the peer's -/
theorem add_emits (strict : Bool) (e : EncState) (hinv : Inv e.table) (name value : Bytes) (sens huff : Bool) :
    ∃ bytes e', e.add strict name value sens huff = .ok (bytes, e') ∧
      bytes = reprOctets (chosenRep strict e.table name value sens) (ch0 huff) ∧
      Inv e'.table ∧ e'.changes = e.changes ∧ e'.table.maxsize = e.table.maxsize ∧
      e'.table.resized = e.table.resized ∧
      (sens = true → e'.table = e.table) ∧
      ∀ allowed limit seen, ∃ nv,
        interpField ⟨absT e.table, e.table.maxsize, allowed, limit⟩ seen (chosenRep strict e.table name value sens)
          = .ok (some ⟨name, value, nv⟩, ⟨absT e'.table, e.table.maxsize, allowed, limit⟩) := by
  have hins : ∀ (e0 : EncState), e0 = e →
      ∃ e', e0.insert name value sens = .ok e' ∧ Inv e'.table ∧ e'.changes = e.changes ∧
        e'.table.maxsize = e.table.maxsize ∧ e'.table.resized = e.table.resized ∧ (sens = true → e'.table = e.table) ∧
        absT e'.table = (if ixOf sens = .incremental then fitE e.table.maxsize ((name, value) :: absT e.table)
                         else absT e.table) := by
    intro e0 he0; subst he0
    cases sens with
    | true => exact ⟨e0, by simp [EncState.insert, pure], hinv, rfl, rfl, rfl, fun _ => rfl, by simp [ixOf]⟩
    | false =>
      obtain ⟨t', ha, hent, hmax, hinv'⟩ := add_spec e0.table ⟨name, false⟩ ⟨value, false⟩ hinv
      refine ⟨{ e0 with table := t' }, by simp [EncState.insert, ha, bind, pure], hinv', rfl, hmax, add_resized _ _ _ _ ha,
        fun h => by simp at h, ?_⟩
      simp only [ixOf, Bool.false_eq_true, if_false, if_true, absT, hent, map_fit, List.map_cons, absE]
  unfold EncState.add chosenRep
  cases hs : e.table.search name value with
  | none =>
    obtain ⟨e', hi, hinv', hch, hmax, hres, hsens, habs⟩ := hins e rfl
    simp only [hi, bind, pure]
    refine ⟨_, e', rfl, ?_, hinv', hch, hmax, hres, hsens, ?_⟩
    · simp only [reprOctets, ch0, encString_eq, List.singleton_append, List.cons_append, List.nil_append,
        List.append_assoc]
      congr 2
      cases sens <;> simp [ixOf, Indexing.pat]
    · intro allowed limit seen
      refine ⟨ixOf sens == .never, ?_⟩
      simp only [interpField, resolveName, habs]
      cases sens <;> simp [ixOf]
  | some res =>
    obtain ⟨index, perfect⟩ := res
    obtain ⟨ent, hres, hname, hval⟩ := search_sound e.table name value hs
    by_cases hp : perfect = true ∧ (strict = true ∨ (!value.isEmpty) = true)
    · simp only [hp, and_self, if_true, pure]
      refine ⟨_, e, rfl, ?_, hinv, rfl, rfl, rfl, fun _ => rfl, ?_⟩
      · simp only [reprOctets, ch0]
        rw [orFirst_encodeInt _ 7 0x80 (by omega) (by omega) (by decide)]
      · intro allowed limit seen
        refine ⟨false, ?_⟩
        have hl : lookup ⟨absT e.table, e.table.maxsize, allowed, limit⟩ index = some ent := by
          rw [← hres]; exact lookup_dyn _ _ rfl _
        simp only [interpField, hl]
        rw [← hname, ← hval hp.1]
    · simp only [hp, if_false]
      obtain ⟨e', hi, hinv', hch, hmax, hres', hsens, habs⟩ := hins e rfl
      simp only [hi, bind, pure]
      refine ⟨_, e', rfl, ?_, hinv', hch, hmax, hres', hsens, ?_⟩
      · simp only [reprOctets, ch0, encString_eq]
        congr 1
        cases sens with
        | true =>
          simp only [ixOf, if_true, Indexing.pfx, Indexing.pat]
          exact orFirst_encodeInt _ 4 0x10 (by omega) (by omega) (by decide)
        | false =>
          simp only [ixOf, Bool.false_eq_true, if_false, Indexing.pfx, Indexing.pat]
          exact orFirst_encodeInt _ 6 0x40 (by omega) (by omega) (by decide)
      · intro allowed limit seen
        refine ⟨ixOf sens == .never, ?_⟩
        have hl : lookup ⟨absT e.table, e.table.maxsize, allowed, limit⟩ index = some ent := by
          rw [← hres]; exact lookup_dyn _ _ rfl _
        simp only [interpField, resolveName, hl, Option.map_some, hname, habs]
        cases sens <;> simp [ixOf]

end RFC
#print axioms RFC.add_emits
