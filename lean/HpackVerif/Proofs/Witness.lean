import HpackVerif.Proofs.RoundTrip
import HpackVerif.Proofs.Limits
/-! negative witnesses on the model of the UNFIXED tree (cap = none, `if perfect:` truthiness, resized overwrite) -/
namespace Witness
open Impl
variable {own : Bool}

def isValueErr : Out (List Header) → Bool
  | .esc .valueError => true
  | _ => false

set_option maxRecDepth 1000000 in
/-- D1 / C04: an index with 2100 continuation octets escapes as ValueError -/
theorem c04_escape_witness :
    isValueErr (decode none false {} (0xff :: (List.replicate 2100 0xff ++ [0x01]))).1 = true := by decide +kernel

def encOut (e : EncState) (hs : List (Bytes × Bytes × Bool)) : Option (Bytes × Nat × Nat) :=
  match e.encode false hs false with
  | .ok (b, e') => some (b, e'.table.entries.length, e'.table.maxsize)
  | _ => none

set_option maxRecDepth 100000 in
/-- D4 / C19: (":authority", "") is an exact static match (index 1) but is sent as a literal with
    indexed name `41 00` and inserted -/
theorem c19_empty_value_witness :
    encOut {} [(":authority".toUTF8.toList, [], false)] = some ([0x41, 0x00], 1, 4096) := by decide +kernel

def setTwice : Option (Bytes × Nat × Nat) :=
  match ({} : EncState).setSize false 40 with
  | .ok e1 => match e1.setSize false 40 with
    | .ok e2 => encOut e2 [("a".toUTF8.toList, "b".toUTF8.toList, false)]
    | _ => none
  | _ => none

set_option maxRecDepth 100000 in
/-- D3 / C09, C10: size 40 set twice ⇒ no size update at the start of the next block
    (first octet is 0x40, a literal, not 0x3f) although the encoder's maximum is 40 -/
theorem c09_lost_update_witness :
    setTwice = some ([0x40, 0x01, 0x61, 0x01, 0x62], 1, 40) := by decide +kernel

def set3 : Option Bytes :=
  match ({} : EncState).setSize false 40 with
  | .ok e1 => match e1.setSize false 100 with
    | .ok e2 => match e2.setSize false 40 with
      | .ok e3 => (encOut e3 []).map (·.1)
      | _ => none
    | _ => none
  | _ => none

set_option maxRecDepth 100000 in
/-- D5 / C09: sizes 40,100,40 ⇒ updates 40,100,40 — the middle one exceeds the size in force (40) -/
theorem c09_exceeds_witness : set3 = some [0x3f, 0x09, 0x3f, 0x45, 0x3f, 0x09] := by decide +kernel

set_option maxRecDepth 100000 in
/-- D2 / C17: a plain incremental literal leaves two views into the caller's buffer in the table -/
theorem c17_view_witness :
    ((decode none false {} [0x40, 0x01, 0x61, 0x01, 0x62]).2.table.entries.map fun e => (e.1.view, e.2.view))
      = [(true, true)] := by decide +kernel

end Witness
