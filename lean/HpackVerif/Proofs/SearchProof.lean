import HpackVerif.Proofs.Sound3
namespace RFC
open Impl

/-- finite obligations on the static search mapping (kernel-evaluated over the whole table) -/
def mappingSound : Bool :=
  staticMapping.all fun (n, first, vals) =>
    (1 ≤ first && first ≤ Gen.staticTable.length &&
      (match Gen.staticTable[first - 1]? with | some e => e.1 == n | none => false)) &&
    vals.all fun (v, idx) =>
      1 ≤ idx && idx ≤ Gen.staticTable.length &&
      (match Gen.staticTable[idx - 1]? with | some e => e.1 == n && e.2 == v | none => false)

def mappingComplete : Bool :=
  Gen.staticTable.all fun (n, v) =>
    match staticMapping.find? (·.1 = n) with
    | some (_, _, vals) => (vals.find? (·.1 = v)).isSome
    | none => false

set_option maxRecDepth 100000 in
theorem mapping_sound : mappingSound = true := by decide +kernel
set_option maxRecDepth 100000 in
theorem mapping_complete : mappingComplete = true := by decide +kernel

/-- the bytes an index resolves to, on the encoder's own table -/
def resolve (t : Table) (i : Nat) : Option E :=
  lookup ⟨absT t, t.maxsize, 0, 0⟩ i

theorem resolve_static {t : Table} {i : Nat} (h1 : 1 ≤ i) (h2 : i ≤ Gen.staticTable.length) :
    resolve t i = Gen.staticTable[i - 1]? := by
  unfold resolve lookup
  have a : ¬ i = 0 := by omega
  have b : i - 1 < Gen.staticTable.length := by omega
  rw [if_neg a, if_pos b]

theorem resolve_dyn {t : Table} (k : Nat) :
    resolve t (Gen.staticTable.length + 1 + k) = (absT t)[k]? := by
  unfold resolve lookup
  generalize Gen.staticTable.length = L
  have a : ¬ L + 1 + k = 0 := by omega
  have b : ¬ L + 1 + k - 1 < L := by omega
  rw [if_neg a, if_neg b]
  congr 1; omega

theorem searchDyn_sound (name value : Bytes) (entries : List Entry) (i : Nat) (p : Option (Nat × Bool))
    {idx : Nat} {perfect : Bool} (h : searchDyn name value entries i p = some (idx, perfect)) :
    p = some (idx, perfect) ∨
    ∃ k e, entries[k]? = some e ∧ idx = i + k ∧ e.1.bytes = name ∧ (perfect = true → e.2.bytes = value) := by
  induction entries generalizing i p with
  | nil => left; simpa [searchDyn] using h
  | cons e es ih =>
    obtain ⟨n, v⟩ := e
    simp only [searchDyn] at h
    by_cases hn : n.bytes = name
    · simp only [hn, if_true] at h
      by_cases hv : v.bytes = value
      · simp only [hv, if_true, Option.some.injEq, Prod.mk.injEq] at h
        right; exact ⟨0, (n, v), rfl, by omega, hn, fun _ => hv⟩
      · simp only [hv, if_false] at h
        rcases ih (i + 1) _ h with hp | ⟨k, e, hk, hidx, hnm, hpf⟩
        · cases p with
          | none =>
            simp only [Option.isNone_none, if_true, Option.some.injEq, Prod.mk.injEq] at hp
            right; exact ⟨0, (n, v), rfl, by omega, hn, fun h => by simp [← hp.2] at h⟩
          | some q => simp only [Option.isNone_some, Bool.false_eq_true, if_false] at hp; left; exact hp
        · right; exact ⟨k + 1, e, by simpa using hk, by omega, hnm, hpf⟩
    · simp only [hn, if_false] at h
      rcases ih (i + 1) p h with hp | ⟨k, e, hk, hidx, hnm, hpf⟩
      · left; exact hp
      · right; exact ⟨k + 1, e, by simpa using hk, by omega, hnm, hpf⟩

/-- C14: a lookup by name and value only ever reports an index that resolves to that name,
    and for an exact match to that value as well -/
theorem search_sound (t : Table) (name value : Bytes) {idx : Nat} {perfect : Bool}
    (h : t.search name value = some (idx, perfect)) :
    ∃ e, resolve t idx = some e ∧ e.1 = name ∧ (perfect = true → e.2 = value) := by
  have hms := mapping_sound
  simp only [mappingSound, List.all_eq_true, Bool.and_eq_true, decide_eq_true_eq] at hms
  have hdyn : ∀ p, searchDyn name value t.entries (Gen.staticTable.length + 1) p = some (idx, perfect) →
      (p = some (idx, perfect) ∨ ∃ e, resolve t idx = some e ∧ e.1 = name ∧ (perfect = true → e.2 = value)) := by
    intro p hp
    rcases searchDyn_sound name value t.entries _ p hp with h1 | ⟨k, e, hk, hidx, hnm, hpf⟩
    · left; exact h1
    · right
      refine ⟨absE e, ?_, hnm, hpf⟩
      rw [hidx, resolve_dyn]; simp [absT, hk]
  unfold Table.search at h
  cases hf : staticMapping.find? (·.1 = name) with
  | none =>
    simp only [hf] at h
    rcases hdyn none h with h1 | h2
    · simp at h1
    · exact h2
  | some ent =>
    obtain ⟨n, first, vals⟩ := ent
    have hmem := List.mem_of_find?_eq_some hf
    have hn : n = name := by simpa using List.find?_some hf
    have hent := hms _ hmem
    obtain ⟨⟨⟨hf1, hf2⟩, hfs⟩, hvals⟩ := hent
    simp only [hf] at h
    cases hv : vals.find? (·.1 = value) with
    | some ve =>
      obtain ⟨v, i⟩ := ve
      simp only [hv, Option.some.injEq, Prod.mk.injEq] at h
      obtain ⟨rfl, rfl⟩ := h
      have hvm := List.mem_of_find?_eq_some hv
      have hveq : v = value := by simpa using List.find?_some hv
      have := hvals _ hvm
      simp only [Bool.and_eq_true, decide_eq_true_eq] at this
      obtain ⟨⟨hi1, hi2⟩, hst⟩ := this
      rw [resolve_static hi1 hi2]
      cases hs : Gen.staticTable[i - 1]? with
      | none => simp [hs] at hst
      | some e =>
        simp only [hs, Bool.and_eq_true, beq_iff_eq] at hst
        exact ⟨e, rfl, by rw [hst.1, hn], fun _ => by rw [hst.2, hveq]⟩
    | none =>
      simp only [hv] at h
      rcases hdyn _ h with h1 | h2
      · simp only [Option.some.injEq, Prod.mk.injEq] at h1
        obtain ⟨rfl, rfl⟩ := h1
        rw [resolve_static hf1 hf2]
        cases hs : Gen.staticTable[first - 1]? with
        | none => simp [hs] at hfs
        | some e =>
          simp only [hs, beq_iff_eq] at hfs
          exact ⟨e, rfl, by rw [hfs, hn], fun h => by simp at h⟩
      · exact h2

end RFC
#print axioms RFC.search_sound
