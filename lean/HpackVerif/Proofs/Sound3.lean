import HpackVerif.Proofs.Sound2
namespace RFC
open Impl
variable {own : Bool}

theorem reprOctets_cons (r : Rep) (ch : Choice) : ∃ b tl, reprOctets r ch = b :: tl := by
  cases r with
  | indexed i => obtain ⟨tl, h⟩ := intOctets_cons 7 0x80 i ch.zi; exact ⟨_, tl, h⟩
  | literal ix nm v =>
    cases nm with
    | idx i =>
      obtain ⟨tl, h⟩ := intOctets_cons ix.pfx ix.pat i ch.zi
      exact ⟨UInt8.ofNat (ix.pat + prefixVal ix.pfx i), tl ++ strOctets ch.valueC v, by rw [reprOctets, h]; rfl⟩
    | lit n => exact ⟨_, _, rfl⟩
  | sizeUpdate n => obtain ⟨tl, h⟩ := intOctets_cons 5 0x20 n ch.zi; exact ⟨_, tl, h⟩

/-- what it means for one decoder step to agree with the RFC meaning of one representation -/
def FieldAgrees (res : Except DErr (Option Field × Ctx)) (d : Out (Option Header × Nat × DecState)) (len : Nat) : Prop :=
  match res with
  | .error e => d = .err e
  | .ok (of, ctx') => ∃ oh st', d = .ok (oh, len, st') ∧ oh.map absH = of ∧ abs st' = ctx' ∧ Inv st'.table

theorem decodeField_indexed (cap : Option Nat) (st : DecState) (hinv : Inv st.table) (i : Nat) (ch : Choice)
    (hok : RepOK cap (.indexed i) ch) (rest : Bytes) (seen : Bool) :
    FieldAgrees (interpField (abs st) seen (.indexed i))
      (decodeField cap own st (reprOctets (.indexed i) ch ++ rest) seen) (reprOctets (.indexed i) ch).length := by
  obtain ⟨hiok, hismall⟩ := hok
  obtain ⟨tl, htl⟩ := intOctets_cons 7 0x80 i ch.zi
  have h127 : (2:Nat) ^ 7 - 1 = 127 := by decide
  have hple := prefixVal_le 7 i
  have hb := toNat_ofNat_lt (show 0x80 + prefixVal 7 i < 256 by omega)
  have hbit := bits_idx ⟨prefixVal 7 i, by omega⟩
  simp only at hbit
  have hdi := decodeInt_intOctets cap 7 (by omega) (by omega) 0x80 i ch.zi (by decide) (by decide) rest hiok
  have hdata : intOctets 7 0x80 i ch.zi ++ rest = UInt8.ofNat (0x80 + prefixVal 7 i) :: (tl ++ rest) := by
    rw [htl]; rfl
  have hdec : decodeField cap own st (intOctets 7 0x80 i ch.zi ++ rest) seen =
      (do let e ← st.table.getByIndex i
          pure (some ⟨e.1, e.2, false⟩, (intOctets 7 0x80 i ch.zi).length, st)) := by
    unfold decodeField
    rw [hdata]; dsimp only; rw [← hdata, hb, if_pos hbit, hdi]; rfl
  show FieldAgrees (interpField (abs st) seen (.indexed i)) (decodeField cap own st (intOctets 7 0x80 i ch.zi ++ rest) seen) _
  rw [hdec]
  simp only [interpField]
  cases hl : lookup (abs st) i with
  | none =>
    simp only [FieldAgrees]
    rw [lookup_none st i hismall hl]; rfl
  | some e =>
    obtain ⟨e', hg, he'⟩ := lookup_some st i e hl
    simp only [FieldAgrees]
    rw [hg]
    exact ⟨_, st, rfl, by simp [absH, ← he', absE], rfl, hinv⟩

theorem decodeField_literal (cap : Option Nat) (st : DecState) (hinv : Inv st.table)
    (ix : Indexing) (nm : NameRef) (v : Bytes) (ch : Choice)
    (hok : RepOK cap (.literal ix nm v) ch) (rest : Bytes) (seen : Bool) :
    FieldAgrees (interpField (abs st) seen (.literal ix nm v))
      (decodeField cap own st (reprOctets (.literal ix nm v) ch ++ rest) seen) (reprOctets (.literal ix nm v) ch).length := by
  have hlit := decodeLiteral_octets (own := own) cap st hinv ix nm v ch hok rest
  obtain ⟨b, tl, hcons⟩ := reprOctets_cons (.literal ix nm v) ch
  have hfirst : ∃ x, x ≤ 2 ^ ix.pfx - 1 ∧ b = UInt8.ofNat (ix.pat + x) := by
    cases nm with
    | idx i =>
      obtain ⟨tl', h⟩ := intOctets_cons ix.pfx ix.pat i ch.zi
      rw [reprOctets, h] at hcons
      simp only [List.cons_append, List.cons.injEq] at hcons
      exact ⟨prefixVal ix.pfx i, prefixVal_le _ _, hcons.1.symm⟩
    | lit n =>
      rw [reprOctets] at hcons
      simp only [List.cons.injEq] at hcons
      exact ⟨0, by omega, by rw [← hcons.1]; rfl⟩
  obtain ⟨x, hx, rfl⟩ := hfirst
  obtain ⟨b256, b80, b40, b20, _, _⟩ := lit_bits ix x hx
  have hb := toNat_ofNat_lt b256
  have hdata : reprOctets (.literal ix nm v) ch ++ rest = UInt8.ofNat (ix.pat + x) :: (tl ++ rest) := by
    rw [hcons]; rfl
  have h80 : ¬ (ix.pat + x) &&& 0x80 ≠ 0 := fun h => h b80
  have hor : (ix.pat + x) &&& 0x40 ≠ 0 ∨ (ix.pat + x) &&& 0x20 = 0 := by
    by_cases hinc : ix = .incremental
    · left; exact b40.mpr hinc
    · right; exact b20 hinc
  have hdecide : decide ((ix.pat + x) &&& 0x40 ≠ 0) = decide (ix = .incremental) := by
    by_cases hinc : ix = .incremental
    · rw [decide_eq_true (b40.mpr hinc), decide_eq_true hinc]
    · have : ¬ (ix.pat + x) &&& 0x40 ≠ 0 := fun h => hinc (b40.mp h)
      rw [decide_eq_false this, decide_eq_false hinc]
  have hdec : decodeField cap own st (reprOctets (.literal ix nm v) ch ++ rest) seen =
      (do let (h, consumed, t') ← decodeLiteral cap own st.table (reprOctets (.literal ix nm v) ch ++ rest)
                                    (decide (ix = .incremental))
          pure (some h, consumed, { st with table := t' })) := by
    unfold decodeField
    rw [hdata]; dsimp only; rw [← hdata, hb, if_neg h80, if_pos hor, hdecide]
  rw [hdec]
  simp only [interpField]
  cases hnm : resolveName (abs st) nm with
  | none =>
    simp only [hnm] at hlit
    simp only [FieldAgrees]
    rw [hlit]; rfl
  | some name =>
    simp only [hnm] at hlit
    obtain ⟨h, t', hd, hh, hinv', hmax, hT⟩ := hlit
    simp only [FieldAgrees]
    rw [hd]
    refine ⟨some h, { st with table := t' }, rfl, by simp [hh], ?_, hinv'⟩
    simp only [abs, hT, hmax]
    by_cases hinc : ix = .incremental
    · simp [hinc]
    · have : (ix == Indexing.incremental) = false := by simp [hinc]
      simp [hinc, this]

theorem decodeField_sizeUpdate (cap : Option Nat) (st : DecState) (hinv : Inv st.table) (n : Nat) (ch : Choice)
    (hok : RepOK cap (.sizeUpdate n) ch) (rest : Bytes) (seen : Bool) :
    FieldAgrees (interpField (abs st) seen (.sizeUpdate n))
      (decodeField cap own st (reprOctets (.sizeUpdate n) ch ++ rest) seen) (reprOctets (.sizeUpdate n) ch).length := by
  have hiok : IntOK cap 5 n ch.zi := hok
  obtain ⟨tl, htl⟩ := intOctets_cons 5 0x20 n ch.zi
  have h31 : (2:Nat) ^ 5 - 1 = 31 := by decide
  have hple := prefixVal_le 5 n
  have hb := toNat_ofNat_lt (show 0x20 + prefixVal 5 n < 256 by omega)
  obtain ⟨u80, u40, u20⟩ := bits_upd ⟨prefixVal 5 n, by omega⟩
  simp only at u80 u40 u20
  have hdi := decodeInt_intOctets cap 5 (by omega) (by omega) 0x20 n ch.zi (by decide) (by decide) rest hiok
  have hdata : intOctets 5 0x20 n ch.zi ++ rest = UInt8.ofNat (0x20 + prefixVal 5 n) :: (tl ++ rest) := by
    rw [htl]; rfl
  have h80 : ¬ (0x20 + prefixVal 5 n) &&& 0x80 ≠ 0 := fun h => h u80
  have hor : ¬ ((0x20 + prefixVal 5 n) &&& 0x40 ≠ 0 ∨ (0x20 + prefixVal 5 n) &&& 0x20 = 0) := by
    intro h; rcases h with h | h
    · exact h u40
    · exact u20 h
  have hdec : decodeField cap own st (intOctets 5 0x20 n ch.zi ++ rest) seen =
      (if seen then .err .decoding
       else if n > st.allowed then .err .invalidTableSize
       else do
          let t' ← st.table.setMaxsize n
          pure (none, (intOctets 5 0x20 n ch.zi).length, { st with table := t' })) := by
    unfold decodeField
    rw [hdata]; dsimp only; rw [← hdata, hb, if_neg h80, if_neg hor, hdi]; rfl
  show FieldAgrees (interpField (abs st) seen (.sizeUpdate n)) (decodeField cap own st (intOctets 5 0x20 n ch.zi ++ rest) seen) _
  rw [hdec]
  simp only [interpField]
  cases seen with
  | true => simp only [if_true, FieldAgrees]
  | false =>
    simp only [Bool.false_eq_true, if_false]
    by_cases hgt : n > st.allowed
    · have : n > (abs st).allowed := hgt
      rw [if_pos hgt, if_pos this]; simp only [FieldAgrees]
    · have : ¬ n > (abs st).allowed := hgt
      rw [if_neg hgt, if_neg this]
      obtain ⟨t', hset, hent, hmax, hinv', _⟩ := setMaxsize_spec st.table n hinv
      simp only [FieldAgrees]
      rw [hset]
      refine ⟨none, { st with table := t' }, rfl, rfl, ?_, hinv'⟩
      simp only [abs, absT, hent, hmax, map_fit]

/-- one field: the decoder's step on the octets of a representation is the RFC meaning of that representation -/
theorem decodeField_reprOctets (cap : Option Nat) (st : DecState) (hinv : Inv st.table) (r : Rep) (ch : Choice)
    (hok : RepOK cap r ch) (rest : Bytes) (seen : Bool) :
    FieldAgrees (interpField (abs st) seen r) (decodeField cap own st (reprOctets r ch ++ rest) seen)
      (reprOctets r ch).length := by
  cases r with
  | indexed i => exact decodeField_indexed cap st hinv i ch hok rest seen
  | literal ix nm v => exact decodeField_literal cap st hinv ix nm v ch hok rest seen
  | sizeUpdate n => exact decodeField_sizeUpdate cap st hinv n ch hok rest seen

theorem decodeLoop_cons (cap : Option Nat) (fuel : Nat) (st : DecState) (b : UInt8) (tl : Bytes)
    (hs : List Header) (infl : Nat) :
    decodeLoop cap own (fuel + 1) st (b :: tl) hs infl =
      (match decodeField cap own st (b :: tl) (!hs.isEmpty) with
       | .ok (some h, consumed, st') =>
         if infl + entrySize (h.name, h.value) > st'.listLimit then (.err .oversized, st')
         else decodeLoop cap own fuel st' ((b :: tl).drop consumed) (h :: hs) (infl + entrySize (h.name, h.value))
       | .ok (none, consumed, st') => decodeLoop cap own fuel st' ((b :: tl).drop consumed) hs infl
       | .err e => (.err e, st)
       | .esc x => (.esc x, st)) := by
  rw [decodeLoop]
  rfl

theorem absH_size (h : Header) : esize ((absH h).name, (absH h).value) = entrySize (h.name, h.value) := rfl

/-- what it means for a whole decode to agree with the RFC meaning of a representation list -/
def BlockAgrees (res : Except DErr (List Field) × Ctx) (d : Out (List Header) × DecState) : Prop :=
  (match res.1 with
   | .ok fs => ∃ hs', d.1 = .ok hs' ∧ hs'.map absH = fs
   | .error e => d.1 = .err e) ∧ abs d.2 = res.2

/-- C02 (prototype): decoding the octets of any list of representations, under any choice of string
    coding and redundant zero digits the limits admit, yields exactly the RFC meaning — fields, order,
    never-indexed flags, error class, and the resulting dynamic table -/
theorem decodeLoop_blockOctets (cap : Option Nat) (fuel : Nat) (st : DecState) (hinv : Inv st.table)
    (rcs : List (Rep × Choice)) (hok : ∀ rc ∈ rcs, RepOK cap rc.1 rc.2)
    (hfuel : (blockOctets rcs).length < fuel) (hs : List Header) (infl : Nat) :
    BlockAgrees (interpLoop (abs st) (rcs.map (·.1)) (hs.map absH) infl)
      (decodeLoop cap own fuel st (blockOctets rcs) hs infl) := by
  induction rcs generalizing fuel st hs infl with
  | nil =>
    cases fuel with
    | zero => simp at hfuel
    | succ fuel =>
      simp only [blockOctets, List.map_nil, interpLoop, decodeLoop]
      by_cases hgt : st.table.maxsize > st.allowed
      · have : (abs st).max > (abs st).allowed := hgt
        rw [if_pos hgt, if_pos this]; exact ⟨rfl, rfl⟩
      · have : ¬ (abs st).max > (abs st).allowed := hgt
        rw [if_neg hgt, if_neg this]
        exact ⟨⟨_, rfl, by simp⟩, rfl⟩
  | cons rc rcs ih =>
    obtain ⟨r, ch⟩ := rc
    cases fuel with
    | zero => simp at hfuel
    | succ fuel =>
      obtain ⟨b, tl, hcons⟩ := reprOctets_cons r ch
      have hblock : blockOctets ((r, ch) :: rcs) = reprOctets r ch ++ blockOctets rcs := rfl
      have hdata : reprOctets r ch ++ blockOctets rcs = b :: (tl ++ blockOctets rcs) := by
        rw [hcons]; rfl
      have hfield := decodeField_reprOctets (own := own) cap st hinv r ch (hok (r, ch) (by simp)) (blockOctets rcs) (!hs.isEmpty)
      have hseen : (!(hs.map absH).isEmpty) = (!hs.isEmpty) := by cases hs <;> rfl
      have hdrop : List.drop (reprOctets r ch).length (reprOctets r ch ++ blockOctets rcs) = blockOctets rcs := by simp
      have hfuel' : (blockOctets rcs).length < fuel := by
        rw [hblock, List.length_append, hcons] at hfuel
        simp only [List.length_cons] at hfuel; omega
      have hok' : ∀ rc ∈ rcs, RepOK cap rc.1 rc.2 := fun rc h => hok rc (by simp [h])
      rw [hblock, hdata, decodeLoop_cons, ← hdata]
      simp only [List.map_cons, interpLoop, hseen]
      cases hif : interpField (abs st) (!hs.isEmpty) r with
      | error e =>
        rw [hif] at hfield
        simp only [FieldAgrees] at hfield
        rw [hfield]
        exact ⟨rfl, rfl⟩
      | ok res =>
        obtain ⟨of, ctx'⟩ := res
        rw [hif] at hfield
        obtain ⟨oh, st', hd, hoh, habs, hinv'⟩ := hfield
        rw [hd]
        cases oh with
        | none =>
          simp only [Option.map_none] at hoh
          subst hoh
          simp only [hdrop]
          rw [← habs]
          exact ih fuel st' hinv' hok' hfuel' hs infl
        | some h =>
          simp only [Option.map_some] at hoh
          subst hoh
          simp only [hdrop]
          rw [← habs]
          by_cases hover : infl + entrySize (h.name, h.value) > st'.listLimit
          · have hover' : infl + esize ((absH h).name, (absH h).value) > (abs st').listLimit := hover
            rw [if_pos hover, if_pos hover']; exact ⟨rfl, rfl⟩
          · have hover' : ¬ infl + esize ((absH h).name, (absH h).value) > (abs st').listLimit := hover
            rw [if_neg hover, if_neg hover']
            exact ih fuel st' hinv' hok' hfuel' (h :: hs) (infl + entrySize (h.name, h.value))

/-- C02, top level -/
theorem decode_blockOctets (cap : Option Nat) (st : DecState) (hinv : Inv st.table)
    (rcs : List (Rep × Choice)) (hok : ∀ rc ∈ rcs, RepOK cap rc.1 rc.2) :
    BlockAgrees (interp (abs st) (rcs.map (·.1))) (decode cap own st (blockOctets rcs)) := by
  have := decodeLoop_blockOctets (own := own) cap ((blockOctets rcs).length + 1) st hinv rcs hok (by omega) [] 0
  simpa [interp, decode] using this

end RFC
#print axioms RFC.decode_blockOctets
