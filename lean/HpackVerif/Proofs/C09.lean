import HpackVerif.Proofs.Conn
namespace RFC
open Impl

/-- a run of table-size assignments by the application (repaired setter) -/
def setSizes : EncState → List Nat → Out EncState
  | e, [] => .ok e
  | e, v :: vs =>
    match e.setSize true v with
    | .ok e' => setSizes e' vs
    | .err x => .err x
    | .esc x => .esc x

/-- what one assignment does to the pending list, exactly -/
theorem setSize_changes (e : EncState) (hok : EncOK e) (v : Nat) {e' : EncState} (h : e.setSize true v = .ok e') :
    e'.table.maxsize = v ∧ e'.changes = (if v = e.table.maxsize then e.changes else e.changes ++ [v]) := by
  obtain ⟨t', hset, _, hmax, _, _⟩ := setMaxsize_spec e.table v hok.inv
  have hres : t'.resized = (v != e.table.maxsize) := by
    unfold Table.setMaxsize at hset
    dsimp only at hset
    split at hset
    · simp only [Out.ok.injEq] at hset; rw [← hset]
    · split at hset
      · unfold Table.shrink at hset
        split at hset
        · simp only [Out.ok.injEq] at hset; rw [← hset]
        · simp at hset
        · simp at hset
      · simp only [Out.ok.injEq] at hset; rw [← hset]
  unfold EncState.setSize at h
  simp only [hset, bind, pure, Out.ok.injEq] at h
  subst h
  refine ⟨hmax, ?_⟩
  simp only [hres]
  by_cases hv : v = e.table.maxsize
  · simp [hv]
  · have : (v != e.table.maxsize) = true := by simp [hv]
    simp [this, hv]

/-- the last pending value, if any, is the size now in force -/
def LastOK (e : EncState) : Prop := ∀ x, e.changes.getLast? = some x → x = e.table.maxsize

theorem setSize_last (e : EncState) (hok : EncOK e) (hl : LastOK e) (v : Nat) {e' : EncState}
    (h : e.setSize true v = .ok e') : LastOK e' := by
  obtain ⟨hm, hc⟩ := setSize_changes e hok v h
  intro x hx
  rw [hc] at hx
  by_cases hv : v = e.table.maxsize
  · rw [if_pos hv] at hx; rw [hm, hv]; exact hl x hx
  · rw [if_neg hv] at hx
    simp only [List.getLast?_append, List.getLast?_singleton, Option.some_or, Option.some.injEq] at hx
    rw [hm, hx]

/-- **C09** (what gets signalled): after any run of assignments `vs` made since the previous block
    (`changes = []`, size in force `s0`), the pending list `E` that the next block will emit
    (`roundtrip_block'`) satisfies: every emitted value was assigned; every assigned value is emitted or is
    the size that was already in force; in particular the smallest assigned size is emitted unless it is
    that old size; and the last emitted value is the size now in force -/
theorem setSizes_signalled (e : EncState) (hok : EncOK e) (vs : List Nat) :
    ∃ e', setSizes e vs = .ok e' ∧ EncOK e' ∧
      (∀ x ∈ e'.changes, x ∈ e.changes ∨ x ∈ vs) ∧
      (∀ v ∈ vs, v ∈ e'.changes ∨ v = e.table.maxsize) ∧
      (∀ x ∈ e.changes, x ∈ e'.changes) ∧
      (LastOK e → LastOK e') := by
  induction vs generalizing e with
  | nil => exact ⟨e, rfl, hok, fun x hx => Or.inl hx, by simp, fun x hx => hx, fun h => h⟩
  | cons v vs ih =>
    -- one step (needs a decoder only to reuse `setSize_ok`; any in-sync peer will do)
    obtain ⟨t', hset, _, hmax, hinv', _⟩ := setMaxsize_spec e.table v hok.inv
    have hstep : ∃ e1, e.setSize true v = .ok e1 := by
      unfold EncState.setSize; simp only [hset, bind, pure]; exact ⟨_, rfl⟩
    obtain ⟨e1, he1⟩ := hstep
    obtain ⟨hm1, hc1⟩ := setSize_changes e hok v he1
    have hok1 : EncOK e1 := by
      -- invariant: table invariant from setMaxsize_spec; flag ↔ changes ≠ [] by cases
      have heq := he1
      unfold EncState.setSize at heq
      simp only [hset, bind, pure, Out.ok.injEq] at heq
      subst heq
      have hres : t'.resized = (v != e.table.maxsize) := by
        unfold Table.setMaxsize at hset
        dsimp only at hset
        split at hset
        · simp only [Out.ok.injEq] at hset; rw [← hset]
        · split at hset
          · unfold Table.shrink at hset
            split at hset
            · simp only [Out.ok.injEq] at hset; rw [← hset]
            · simp at hset
            · simp at hset
          · simp only [Out.ok.injEq] at hset; rw [← hset]
      refine ⟨⟨hinv'.cached, hinv'.bounded⟩, ?_⟩
      simp only [hres, Bool.true_and]
      by_cases hv : v = e.table.maxsize
      · simp only [hv, bne_self_eq_false, Bool.false_or, Bool.false_eq_true, if_false]; exact hok.flag
      · have : (v != e.table.maxsize) = true := by simp [hv]
        simp [this]
    obtain ⟨e', hrun, hok', hsub, hall, hmono, hlast⟩ := ih e1 hok1
    refine ⟨e', by simp only [setSizes, he1]; exact hrun, hok', ?_, ?_, ?_, fun hl => hlast (setSize_last e hok hl v he1)⟩
    · intro x hx
      rcases hsub x hx with h | h
      · rw [hc1] at h
        split at h
        · exact Or.inl h
        · simp only [List.mem_append, List.mem_singleton] at h
          rcases h with h | h
          · exact Or.inl h
          · exact Or.inr (by simp [h])
      · exact Or.inr (by simp [h])
    · intro w hw
      simp only [List.mem_cons] at hw
      rcases hw with rfl | hw
      · by_cases hv : w = e.table.maxsize
        · exact Or.inr hv
        · left; apply hmono; rw [hc1, if_neg hv]; simp
      · rcases hall w hw with h | h
        · exact Or.inl h
        · rw [hm1] at h
          by_cases hv : v = e.table.maxsize
          · exact Or.inr (by rw [h, hv])
          · left; apply hmono; rw [hc1, if_neg hv, h]; simp
    · intro x hx
      apply hmono
      rw [hc1]; split
      · exact hx
      · simp [hx]

end RFC

#print axioms RFC.setSizes_signalled
