import HpackVerif.Src.Py
import Mathlib.Tactic.Ring
import HpackVerif.Impl.EncModel
/-! `hex(n)` → zero padding → `bytes.fromhex`: the big-endian octets of `n` (`Impl.toBytesBE`), as many as the padding asks for -/
namespace SrcTie
open Py

/-- value of a digit string, most significant digit first -/
def hval : List Nat → Nat
  | [] => 0
  | x :: xs => x * 16 ^ xs.length + hval xs

def HexOK (D : List Nat) : Prop := ∀ d ∈ D, d < 16

theorem hval_append_single (xs : List Nat) (y : Nat) : hval (xs ++ [y]) = hval xs * 16 + y := by
  induction xs with
  | nil => simp [hval]
  | cons x t ih =>
    simp only [List.cons_append, hval, ih, List.length_append, List.length_singleton, Nat.pow_succ]
    rw [Nat.add_mul, Nat.mul_assoc, Nat.add_assoc]

theorem hexDigitsNat_val (n : Nat) : hval (Py.hexDigitsNat n) = n := by
  induction n using Nat.strongRecOn with
  | _ n ih =>
    rw [Py.hexDigitsNat]
    split
    · simp [hval]
    · rw [hval_append_single, ih (n / 16) (by omega)]; omega

theorem hexDigitsNat_ok (n : Nat) : HexOK (Py.hexDigitsNat n) := by
  induction n using Nat.strongRecOn with
  | _ n ih =>
    rw [Py.hexDigitsNat]
    split
    · intro d hd; simp at hd; omega
    · intro d hd
      simp only [List.mem_append, List.mem_singleton] at hd
      rcases hd with hd | hd
      · exact ih (n / 16) (by omega) d hd
      · omega

theorem hval_lt (D : List Nat) (h : HexOK D) : hval D < 16 ^ D.length := by
  induction D with
  | nil => simp [hval]
  | cons x t ih =>
    have hx : x < 16 := h x (by simp)
    have ht := ih (fun d hd => h d (by simp [hd]))
    simp only [hval, List.length_cons, Nat.pow_succ]
    have : x * 16 ^ t.length + hval t < (x + 1) * 16 ^ t.length := by rw [Nat.add_mul]; omega
    calc x * 16 ^ t.length + hval t < (x + 1) * 16 ^ t.length := this
      _ ≤ 16 * 16 ^ t.length := Nat.mul_le_mul_right _ (by omega)
      _ = 16 ^ t.length * 16 := Nat.mul_comm _ _

theorem hval_zeros (z : Nat) (D : List Nat) : hval (List.replicate z 0 ++ D) = hval D := by
  induction z with
  | zero => simp
  | succ z ih => simp [List.replicate_succ, hval, ih]

theorem hexok_zeros (z : Nat) (D : List Nat) (h : HexOK D) : HexOK (List.replicate z 0 ++ D) := by
  intro d hd
  simp only [List.mem_append, List.mem_replicate] at hd
  rcases hd with ⟨_, rfl⟩ | hd
  · omega
  · exact h d hd

/-- the low `m` octets do not depend on what is above them -/
theorem toBytesBE_mod (m : Nat) : ∀ (q r : Nat), Impl.toBytesBE (q * 256 ^ m + r) m = Impl.toBytesBE r m := by
  induction m with
  | zero => intro q r; rfl
  | succ m ih =>
    intro q r
    simp only [Impl.toBytesBE]
    have hpow : (256 : Nat) ^ (m + 1) = 256 ^ m * 256 := by rw [Nat.pow_succ]
    have hsh : ∀ x, x >>> (8 * m) = x / 256 ^ m := by
      intro x; rw [Nat.shiftRight_eq_div_pow, Nat.pow_mul]
    rw [hsh, hsh]
    have hp : 0 < 256 ^ m := Nat.pow_pos (by omega)
    have h1 : (q * 256 ^ (m + 1) + r) / 256 ^ m = q * 256 + r / 256 ^ m := by
      rw [hpow, show q * (256 ^ m * 256) = (q * 256) * 256 ^ m by ring]
      rw [Nat.add_comm, Nat.add_mul_div_right _ _ hp, Nat.add_comm]
    rw [h1]
    have h2 : (q * 256 + r / 256 ^ m) % 256 = (r / 256 ^ m) % 256 := by omega
    rw [h2]
    congr 1
    have e1 : q * 256 ^ (m + 1) + r = (q * 256 + r / 256 ^ m) * 256 ^ m + r % 256 ^ m := by
      rw [hpow, Nat.add_mul, show q * (256 ^ m * 256) = q * 256 * 256 ^ m by ring]
      have := Nat.div_add_mod r (256 ^ m)
      rw [Nat.mul_comm] at this
      omega
    have e2 : r = (r / 256 ^ m) * 256 ^ m + r % 256 ^ m := by
      have := Nat.div_add_mod r (256 ^ m)
      rw [Nat.mul_comm] at this
      omega
    rw [e1, ih, ih (r / 256 ^ m) (r % 256 ^ m) |>.symm, ← e2]

/-- `bytes.fromhex` of `2k` hexadecimal digits = the `k` big-endian octets of their value -/
theorem fromHex_val : ∀ (k : Nat) (D : List Nat), D.length = 2 * k → HexOK D → Py.fromHex D = .ok (Impl.toBytesBE (hval D) k) := by
  intro k
  induction k with
  | zero => intro D hl _; have : D = [] := List.length_eq_zero_iff.mp (by omega); subst this; rfl
  | succ k ih =>
    intro D hl hok
    match D, hl with
    | a :: b :: rest, hl =>
      have hrl : rest.length = 2 * k := by simp at hl; omega
      have hrok : HexOK rest := fun d hd => hok d (by simp [hd])
      have ha : a < 16 := hok a (by simp)
      have hb : b < 16 := hok b (by simp)
      simp only [Py.fromHex, ih rest hrl hrok, Impl.toBytesBE]
      have hv : hval (a :: b :: rest) = (a * 16 + b) * 256 ^ k + hval rest := by
        simp only [hval, List.length_cons, hrl]
        have h2 : (16 : Nat) ^ (2 * k) = 256 ^ k := by rw [Nat.pow_mul]
        have h1 : (16 : Nat) ^ (2 * k + 1) = 16 * 256 ^ k := by rw [Nat.pow_succ, h2]; ring
        rw [h1, h2]; ring
      have hr : hval rest < 256 ^ k := by
        have := hval_lt rest hrok
        rw [hrl, Nat.pow_mul] at this
        exact this
      have hsh : hval (a :: b :: rest) >>> (8 * k) = a * 16 + b := by
        rw [Nat.shiftRight_eq_div_pow, show (2 : Nat) ^ (8 * k) = 256 ^ k by rw [Nat.pow_mul], hv]
        have hp : 0 < 256 ^ k := Nat.pow_pos (by omega)
        rw [Nat.add_comm, Nat.add_mul_div_right _ _ hp, Nat.div_eq_of_lt hr]; omega
      rw [hsh]
      have hm : (a * 16 + b) % 256 = a * 16 + b := Nat.mod_eq_of_lt (by omega)
      rw [hm, hv, toBytesBE_mod]

theorem hexlen_pos (n : Nat) : 1 ≤ (Py.hexDigitsNat n).length := by
  rw [Py.hexDigitsNat]; split <;> simp

/-- `16^(L-1) ≤ n < 16^L` for the number `L` of hexadecimal digits of `n ≥ 1` -/
theorem hexlen_bounds (n : Nat) : n < 16 ^ (Py.hexDigitsNat n).length ∧ (n ≠ 0 → 16 ^ ((Py.hexDigitsNat n).length - 1) ≤ n) := by
  induction n using Nat.strongRecOn with
  | _ n ih =>
    rw [Py.hexDigitsNat]
    split
    · rename_i h
      refine ⟨by simpa using h, fun h0 => ?_⟩
      simp; omega
    · rename_i h
      obtain ⟨h1, h2⟩ := ih (n / 16) (by omega)
      have hq : n / 16 ≠ 0 := by omega
      have h2' := h2 hq
      have hl := hexlen_pos (n / 16)
      simp only [List.length_append, List.length_singleton, Nat.add_sub_cancel]
      constructor
      · rw [Nat.pow_succ]; omega
      · intro _
        have : (16 : Nat) ^ (Py.hexDigitsNat (n / 16)).length = 16 ^ ((Py.hexDigitsNat (n / 16)).length - 1) * 16 := by
          rw [← Nat.pow_succ]; congr 1; omega
        rw [this]; omega

/-- whole octets needed for `n` = half the number of its hexadecimal digits, rounded up -/
theorem byteLen_hex (n : Nat) : Impl.byteLen n = ((Py.hexDigitsNat n).length + 1) / 2 := by
  unfold Impl.byteLen
  by_cases h0 : n = 0
  · subst h0; rw [Py.hexDigitsNat]; simp [Nat.log2]
  · obtain ⟨hb1, hb2⟩ := hexlen_bounds n
    have hb2' := hb2 h0
    have hl := hexlen_pos n
    have l1 := Nat.log2_self_le h0
    have l2 := @Nat.lt_log2_self n
    -- 2^(4(L-1)) ≤ n < 2^(log2 n + 1)  and  2^(log2 n) ≤ n < 2^(4L)
    have e1 : (16 : Nat) ^ ((Py.hexDigitsNat n).length - 1) = 2 ^ (4 * ((Py.hexDigitsNat n).length - 1)) := by rw [Nat.pow_mul]
    have e2 : (16 : Nat) ^ (Py.hexDigitsNat n).length = 2 ^ (4 * (Py.hexDigitsNat n).length) := by rw [Nat.pow_mul]
    have a1 : 4 * ((Py.hexDigitsNat n).length - 1) < n.log2 + 1 :=
      (Nat.pow_lt_pow_iff_right (by omega : 1 < 2)).mp (by rw [← e1]; omega)
    have a2 : n.log2 < 4 * (Py.hexDigitsNat n).length :=
      (Nat.pow_lt_pow_iff_right (by omega : 1 < 2)).mp (by rw [← e2]; omega)
    omega

/-- **the hex round trip of `HuffmanEncoder.encode`**: `hex(num)` without its prefix, one `0` in front if the number of
digits is odd, more zeros in front up to `2 * total` digits, `bytes.fromhex` — the big-endian octets of `num`, `total` of them
or as many as `num` needs if that is more -/
theorem hex_round_trip (num total : Nat) :
    Py.fromHex
      (let s := Py.hexDigitsNat num
       let s1 := if s.length % 2 ≠ 0 then 0 :: s else s
       if s1.length ≠ 2 * total then List.replicate (2 * total - s1.length) 0 ++ s1 else s1) =
    .ok (Impl.toBytesBE num (max total (Impl.byteLen num))) := by
  have hok := hexDigitsNat_ok num
  have hv := hexDigitsNat_val num
  have hB := byteLen_hex num
  have hl := hexlen_pos num
  simp only []
  -- the even-length string
  have hs1 : ∀ s1, s1 = (if (Py.hexDigitsNat num).length % 2 ≠ 0 then 0 :: Py.hexDigitsNat num else Py.hexDigitsNat num) →
      s1.length = 2 * Impl.byteLen num ∧ HexOK s1 ∧ hval s1 = num := by
    intro s1 he
    by_cases hodd : (Py.hexDigitsNat num).length % 2 ≠ 0
    · rw [if_pos hodd] at he; subst he
      refine ⟨by simp; omega, ?_, ?_⟩
      · intro d hd; simp at hd; rcases hd with rfl | hd
        · omega
        · exact hok d hd
      · have := hval_zeros 1 (Py.hexDigitsNat num); simpa [hv] using this
    · rw [if_neg hodd] at he; subst he
      exact ⟨by omega, hok, hv⟩
  obtain ⟨h1, h2, h3⟩ := hs1 _ rfl
  by_cases hne : (if (Py.hexDigitsNat num).length % 2 ≠ 0 then 0 :: Py.hexDigitsNat num else Py.hexDigitsNat num).length ≠ 2 * total
  · rw [if_pos hne]
    by_cases hlt : 2 * Impl.byteLen num < 2 * total
    · have hlen : (List.replicate (2 * total - (if (Py.hexDigitsNat num).length % 2 ≠ 0 then 0 :: Py.hexDigitsNat num else Py.hexDigitsNat num).length) 0 ++
          (if (Py.hexDigitsNat num).length % 2 ≠ 0 then 0 :: Py.hexDigitsNat num else Py.hexDigitsNat num)).length = 2 * total := by
        simp only [List.length_append, List.length_replicate]; omega
      rw [fromHex_val total _ hlen (hexok_zeros _ _ h2), hval_zeros, h3]
      congr 2; omega
    · have hz : 2 * total - (if (Py.hexDigitsNat num).length % 2 ≠ 0 then 0 :: Py.hexDigitsNat num else Py.hexDigitsNat num).length = 0 := by omega
      rw [hz]
      simp only [List.replicate_zero, List.nil_append]
      rw [fromHex_val (Impl.byteLen num) _ h1 h2, h3]
      congr 2; omega
  · rw [if_neg hne]
    rw [fromHex_val (Impl.byteLen num) _ h1 h2, h3]
    congr 2
    have : 2 * Impl.byteLen num = 2 * total := by
      have := Classical.not_not.mp hne; omega
    omega

end SrcTie
