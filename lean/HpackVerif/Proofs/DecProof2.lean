import HpackVerif.Proofs.DecProof
namespace Impl
variable {own : Bool}

theorem static_owned : ∀ e ∈ Gen.staticTable, True := fun _ _ => trivial

/-- the cap keeps every decoded integer printable by `%d` -/
def CapOK (c : Nat) : Prop := 2 ^ (c + 9) ≤ 10 ^ maxStrDigits

theorem decodeLiteral_spec (c : Nat) (hc : CapOK c) (t : Table) (hinv : Inv t) (data : Bytes) (si : Bool) :
    (data ≠ [] → (decodeLiteral (some c) own t data si).isEsc = false) ∧
    ∀ h k t', decodeLiteral (some c) own t data si = .ok (h, k, t') → 1 ≤ k ∧ k ≤ data.length ∧ Inv t' := by
  cases data with
  | nil => simp [decodeLiteral]
  | cons b0 tail =>
    unfold decodeLiteral
    dsimp only
    -- name part
    generalize hnm : (if si = true then (b0.toNat &&& 0x3F, 6, false)
        else (b0.toNat &&& 0x0F, 4, decide (b0.toNat &&& 0x10 ≠ 0))) = trip
    obtain ⟨indexedName, nameLen, notIndexable⟩ := trip
    dsimp only
    by_cases hin : indexedName ≠ 0
    · simp only [if_pos hin]
      have e1 := decodeInt_no_esc (some c) (b0 :: tail) nameLen
      cases hd : decodeInt (some c) (b0 :: tail) nameLen with
      | esc x => simp [hd, Out.isEsc] at e1
      | err e => simp [hd, bind, Out.isEsc]
      | ok r =>
        obtain ⟨index, consumed⟩ := r
        obtain ⟨k1, k2, hv⟩ := decodeInt_spec c _ _ hd
        have e2 := getByIndex_no_esc t index (Nat.lt_of_lt_of_le hv hc)
        simp only [bind, pure]
        cases hg : t.getByIndex index with
        | esc x => simp [hg, Out.isEsc] at e2
        | err e => simp [hg, bind, Out.isEsc]
        | ok ent =>
          dsimp only
          have e3 := readString_spec (own := own) (some c) (List.drop consumed (b0 :: tail))
          cases hr : readString (some c) own (List.drop consumed (b0 :: tail)) with
          | esc x => simp [hr, Out.isEsc] at e3
          | err e => simp [hr, Out.isEsc]
          | ok r2 =>
            obtain ⟨value, c2⟩ := r2
            obtain ⟨r1, r2⟩ := readString_consumed (own := own) c _ hr
            simp only [List.length_drop] at r2
            dsimp only
            by_cases hsi : si = true
            · simp only [if_pos hsi]
              obtain ⟨t', ha, _, _, hinv'⟩ := add_spec t ent.1 value hinv
              simp only [ha]
              refine ⟨fun _ => by simp [Out.isEsc], ?_⟩
              intro h k t'' heq
              simp only [Out.ok.injEq, Prod.mk.injEq] at heq
              obtain ⟨_, rfl, rfl⟩ := heq
              exact ⟨by omega, by omega, hinv'⟩
            · simp only [if_neg hsi]
              refine ⟨fun _ => by simp [Out.isEsc], ?_⟩
              intro h k t'' heq
              simp only [Out.ok.injEq, Prod.mk.injEq] at heq
              obtain ⟨_, rfl, rfl⟩ := heq
              exact ⟨by omega, by omega, hinv⟩
    · simp only [if_neg hin]
      have e1 := readString_spec (own := own) (some c) tail
      cases hr1 : readString (some c) own tail with
      | esc x => simp [hr1, Out.isEsc] at e1
      | err e => simp [hr1, bind, Out.isEsc]
      | ok r1 =>
        obtain ⟨name, c1⟩ := r1
        obtain ⟨n1, n2⟩ := readString_consumed (own := own) c _ hr1
        simp only [bind, pure]
        have e3 := readString_spec (own := own) (some c) (List.drop c1 tail)
        cases hr : readString (some c) own (List.drop c1 tail) with
        | esc x => simp [hr, Out.isEsc] at e3
        | err e => simp [hr, Out.isEsc]
        | ok r2 =>
          obtain ⟨value, c2⟩ := r2
          obtain ⟨r1, r2⟩ := readString_consumed (own := own) c _ hr
          simp only [List.length_drop] at r2
          dsimp only
          by_cases hsi : si = true
          · simp only [if_pos hsi]
            obtain ⟨t', ha, _, _, hinv'⟩ := add_spec t name value hinv
            simp only [ha]
            refine ⟨fun _ => by simp [Out.isEsc], ?_⟩
            intro h k t'' heq
            simp only [Out.ok.injEq, Prod.mk.injEq] at heq
            obtain ⟨_, rfl, rfl⟩ := heq
            exact ⟨by omega, by simp; omega, hinv'⟩
          · simp only [if_neg hsi]
            refine ⟨fun _ => by simp [Out.isEsc], ?_⟩
            intro h k t'' heq
            simp only [Out.ok.injEq, Prod.mk.injEq] at heq
            obtain ⟨_, rfl, rfl⟩ := heq
            exact ⟨by omega, by simp; omega, hinv⟩

theorem decodeField_safe (c : Nat) (hc : CapOK c) (st : DecState) (hinv : Inv st.table) (data : Bytes)
    (hne : data ≠ []) (seen : Bool) :
    (decodeField (some c) own st data seen).isEsc = false ∧
    ∀ h k st', decodeField (some c) own st data seen = .ok (h, k, st') →
      1 ≤ k ∧ k ≤ data.length ∧ Inv st'.table ∧ st'.allowed = st.allowed ∧ st'.listLimit = st.listLimit := by
  cases data with
  | nil => exact absurd rfl hne
  | cons b0 rest =>
    unfold decodeField
    dsimp only
    by_cases hidx : b0.toNat &&& 0x80 ≠ 0
    · simp only [if_pos hidx]
      have e1 := decodeInt_no_esc (some c) (b0 :: rest) 7
      cases hd : decodeInt (some c) (b0 :: rest) 7 with
      | esc x => simp [hd, Out.isEsc] at e1
      | err e => simp [bind, Out.isEsc]
      | ok r =>
        obtain ⟨index, consumed⟩ := r
        obtain ⟨k1, k2, hv⟩ := decodeInt_spec c _ _ hd
        have e2 := getByIndex_no_esc st.table index (Nat.lt_of_lt_of_le hv hc)
        simp only [bind, pure]
        cases hg : st.table.getByIndex index with
        | esc x => simp [hg, Out.isEsc] at e2
        | err e => simp [Out.isEsc]
        | ok ent =>
          refine ⟨by simp [Out.isEsc], ?_⟩
          intro h k st' heq
          simp only [Out.ok.injEq, Prod.mk.injEq] at heq
          obtain ⟨_, rfl, rfl⟩ := heq
          exact ⟨k1, k2, hinv, rfl, rfl⟩
    · simp only [if_neg hidx]
      by_cases hlit : b0.toNat &&& 0x40 ≠ 0 ∨ b0.toNat &&& 0x20 = 0
      · simp only [if_pos hlit]
        obtain ⟨l1, l2⟩ := decodeLiteral_spec (own := own) c hc st.table hinv (b0 :: rest) (decide (b0.toNat &&& 0x40 ≠ 0))
        have l1 := l1 (by simp)
        cases hl : decodeLiteral (some c) own st.table (b0 :: rest) (decide (b0.toNat &&& 0x40 ≠ 0)) with
        | esc x => rw [hl] at l1; simp [Out.isEsc] at l1
        | err e => simp [bind, Out.isEsc]
        | ok r =>
          obtain ⟨h, consumed, t'⟩ := r
          obtain ⟨k1, k2, hinv'⟩ := l2 _ _ _ hl
          simp only [bind, pure]
          refine ⟨by simp [Out.isEsc], ?_⟩
          intro h' k st' heq
          simp only [Out.ok.injEq, Prod.mk.injEq] at heq
          obtain ⟨_, rfl, rfl⟩ := heq
          exact ⟨k1, k2, hinv', rfl, rfl⟩
      · simp only [if_neg hlit]
        cases seen with
        | true => simp [Out.isEsc]
        | false =>
          simp only [Bool.false_eq_true, if_false]
          have e1 := decodeInt_no_esc (some c) (b0 :: rest) 5
          cases hd : decodeInt (some c) (b0 :: rest) 5 with
          | esc x => simp [hd, Out.isEsc] at e1
          | err e => simp [bind, Out.isEsc]
          | ok r =>
            obtain ⟨newSize, consumed⟩ := r
            obtain ⟨k1, k2, _⟩ := decodeInt_spec c _ _ hd
            simp only [bind, pure]
            split
            · simp [Out.isEsc]
            · obtain ⟨t', hset, _, _, hinv', _⟩ := setMaxsize_spec st.table newSize hinv
              simp only [hset]
              refine ⟨by simp [Out.isEsc], ?_⟩
              intro h' k st' heq
              simp only [Out.ok.injEq, Prod.mk.injEq] at heq
              obtain ⟨_, rfl, rfl⟩ := heq
              exact ⟨k1, k2, hinv', rfl, rfl⟩

/-- C04 (+ C06 lifted to the decoder): with a cap that keeps integers printable, decode never escapes,
    never runs out of fuel (i.e. the Python loop terminates), and leaves a table satisfying the invariant -/
theorem decodeLoop_safe (c : Nat) (hc : CapOK c) (fuel : Nat) (st : DecState) (hinv : Inv st.table)
    (data : Bytes) (hf : data.length < fuel) (hs : List Header) (infl : Nat) :
    (decodeLoop (some c) own fuel st data hs infl).1.isEsc = false ∧
    Inv (decodeLoop (some c) own fuel st data hs infl).2.table := by
  induction fuel generalizing st data hs infl with
  | zero => omega
  | succ fuel ih =>
    unfold decodeLoop
    cases data with
    | nil => dsimp only; split <;> simp [Out.isEsc, hinv]
    | cons b0 rest =>
      dsimp only
      obtain ⟨f1, f2⟩ := decodeField_safe (own := own) c hc st hinv (b0 :: rest) (by simp) (!hs.isEmpty)
      cases hfld : decodeField (some c) own st (b0 :: rest) (!hs.isEmpty) with
      | esc x => rw [hfld] at f1; simp [Out.isEsc] at f1
      | err e => simp [Out.isEsc, hinv]
      | ok r =>
        obtain ⟨oh, consumed, st'⟩ := r
        obtain ⟨k1, k2, hinv', _, _⟩ := f2 _ _ _ hfld
        have hlen : (List.drop consumed (b0 :: rest)).length < fuel := by
          simp only [List.length_drop, List.length_cons] at hf k2 ⊢; omega
        cases oh with
        | none => exact ih st' hinv' _ hlen _ _
        | some h =>
          dsimp only
          split
          · simp [Out.isEsc, hinv']
          · exact ih st' hinv' _ hlen _ _

theorem decode_safe (c : Nat) (hc : CapOK c) (st : DecState) (hinv : Inv st.table) (data : Bytes) :
    (decode (some c) own st data).1.isEsc = false ∧ Inv (decode (some c) own st data).2.table :=
  decodeLoop_safe c hc _ st hinv data (by omega) [] 0

/-- non-vacuity: a 19-octet cap (shift ≤ 126) satisfies CapOK -/
example : CapOK 126 := by unfold CapOK maxStrDigits; decide +kernel

end Impl
#print axioms Impl.decode_safe
