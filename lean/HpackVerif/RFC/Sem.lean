import HpackVerif.RFC.Wire
import HpackVerif.Impl.EncModel
/-! L0 (prototype): representations, their octets (with the peer's choices), and their meaning -/
namespace RFC
open Impl (DErr)

inductive Indexing | incremental | without | never
deriving DecidableEq, Repr

def Indexing.pat : Indexing → Nat
  | .incremental => 0x40 | .without => 0x00 | .never => 0x10
def Indexing.pfx : Indexing → Nat
  | .incremental => 6 | _ => 4

inductive NameRef | idx (i : Nat) | lit (n : Bytes)
deriving Repr

inductive Rep
  | indexed (i : Nat)
  | literal (ix : Indexing) (name : NameRef) (value : Bytes)
  | sizeUpdate (n : Nat)
deriving Repr

structure StrChoice where
  huff : Bool
  z : Nat
deriving Repr

structure Choice where
  zi : Nat
  nameC : StrChoice
  valueC : StrChoice
deriving Repr

/-- §5.2 string literal: H bit, length, payload. (The Huffman payload is pinned to Appendix B by
    `huffEncode_bits`; the final L0 will define it from the code table directly.) -/
def strOctets (c : StrChoice) (s : Bytes) : Bytes :=
  if c.huff then intOctets 7 0x80 (Impl.huffEncode Gen.codes s).length c.z ++ Impl.huffEncode Gen.codes s
  else intOctets 7 0 s.length c.z ++ s

/-- §6 -/
def reprOctets : Rep → Choice → Bytes
  | .indexed i, ch => intOctets 7 0x80 i ch.zi
  | .literal ix (.idx i) v, ch => intOctets ix.pfx ix.pat i ch.zi ++ strOctets ch.valueC v
  | .literal ix (.lit n) v, ch => UInt8.ofNat ix.pat :: (strOctets ch.nameC n ++ strOctets ch.valueC v)
  | .sizeUpdate n, ch => intOctets 5 0x20 n ch.zi

def blockOctets : List (Rep × Choice) → Bytes
  | [] => []
  | (r, ch) :: rest => reprOctets r ch ++ blockOctets rest

/-! ### meaning -/
abbrev E := Bytes × Bytes
def esize (e : E) : Nat := 32 + e.1.length + e.2.length

/-- §4.4: keep the longest newest-first prefix that fits -/
def fitE (max : Nat) : List E → List E
  | [] => []
  | e :: es => if esize e ≤ max then e :: fitE (max - esize e) es else []

structure Ctx where
  dyn : List E
  max : Nat
  allowed : Nat        -- the application's permitted maximum
  listLimit : Nat      -- the application's header-list limit
deriving Repr

/-- §2.3.3 index address space -/
def lookup (ctx : Ctx) (i : Nat) : Option E :=
  if i = 0 then none
  else if i - 1 < Gen.staticTable.length then Gen.staticTable[i - 1]?
  else ctx.dyn[i - 1 - Gen.staticTable.length]?

structure Field where
  name : Bytes
  value : Bytes
  never : Bool
deriving Repr, DecidableEq

def resolveName (ctx : Ctx) : NameRef → Option Bytes
  | .idx i => (lookup ctx i).map (·.1)
  | .lit n => some n

def interpField (ctx : Ctx) (seen : Bool) : Rep → Except DErr (Option Field × Ctx)
  | .indexed i =>
    match lookup ctx i with
    | some e => .ok (some ⟨e.1, e.2, false⟩, ctx)
    | none => .error .invalidIndex
  | .literal ix nm v =>
    match resolveName ctx nm with
    | none => .error .invalidIndex
    | some name =>
      .ok (some ⟨name, v, ix == .never⟩,
           if ix == .incremental then { ctx with dyn := fitE ctx.max ((name, v) :: ctx.dyn) } else ctx)
  | .sizeUpdate n =>
    if seen then .error .decoding
    else if n > ctx.allowed then .error .invalidTableSize
    else .ok (none, { ctx with max := n, dyn := fitE n ctx.dyn })

def interpLoop (ctx : Ctx) : List Rep → List Field → Nat → Except DErr (List Field) × Ctx
  | [], fs, _ =>
    if ctx.max > ctx.allowed then (.error .invalidTableSize, ctx) else (.ok fs.reverse, ctx)
  | r :: rs, fs, size =>
    match interpField ctx (!fs.isEmpty) r with
    | .error e => (.error e, ctx)
    | .ok (some f, ctx') =>
      let size := size + esize (f.name, f.value)
      if size > ctx'.listLimit then (.error .oversized, ctx')
      else interpLoop ctx' rs (f :: fs) size
    | .ok (none, ctx') => interpLoop ctx' rs fs size

def interp (ctx : Ctx) (rs : List Rep) : Except DErr (List Field) × Ctx := interpLoop ctx rs [] 0

end RFC
