import HpackVerif.Impl.Huff
/-! L0: declarative reading of RFC 7541 (prototype) -/
namespace RFC

/-- minimal little-endian base-128 digits of `r` (always at least one digit) -/
def digits (r : Nat) : List Nat :=
  if _h : r ≥ 128 then (r % 128) :: digits (r / 128) else [r]
termination_by r
decreasing_by omega

/-- §5.1 continuation octets: every digit but the last carries the continuation bit -/
def contOctets : List Nat → Bytes
  | [] => []
  | [d] => [UInt8.ofNat d]
  | d :: d' :: ds => UInt8.ofNat (d + 128) :: contOctets (d' :: ds)

/-- §5.1: `v` with an `N`-bit prefix, `hi` = the bits above the prefix (a multiple of 2^N, < 256),
    `z` = redundant zero digits chosen by the peer (only possible when the prefix is saturated) -/
def intOctets (N hi v z : Nat) : Bytes :=
  if v < 2 ^ N - 1 then [UInt8.ofNat (hi + v)]
  else UInt8.ofNat (hi + (2 ^ N - 1)) :: contOctets (digits (v - (2 ^ N - 1)) ++ List.replicate z 0)

def dval : List Nat → Nat
  | [] => 0
  | d :: ds => d + 128 * dval ds

end RFC
