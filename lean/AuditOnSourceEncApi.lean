import Lean
import HpackVerif.Props.OnSourceEncApi
/-! axioms of the source-tie theorems (`Props.Src.*`); same format as Audit.lean -/
open Lean Elab Command

elab "#audit_onsourceencapi" : command => do
  let env ← getEnv
  let mut names : Array Name := #[]
  for (n, ci) in env.constants.toList do
    if (`Props.OnSourceEncApi).isPrefixOf n && !n.isInternal then
      match ci with
      | .thmInfo _ => names := names.push n
      | _ => pure ()
  let sorted := names.qsort (fun a b => a.toString < b.toString)
  for n in sorted do
    let axs ← Lean.collectAxioms n
    let axs := axs.qsort (fun a b => a.toString < b.toString)
    logInfo m!"AUDIT {n} | {" ".intercalate (axs.toList.map toString)}"

#audit_onsourceencapi
