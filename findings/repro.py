#!/usr/bin/env python3
"""Reproduce the findings D1-D5 (DESIGN.md section 4) against the hpack in $HPACK_REPO/src (default /repo).
Usage: repro.py [D1 D2 ...]; prints one line per finding: `Dk REPRODUCED ...` or `Dk not-reproduced`."""
import sys, os, time
sys.path.insert(0, os.path.join(os.environ.get('HPACK_REPO', '/repo'), 'src'))
from hpack import Decoder, Encoder
from hpack.exceptions import HPACKDecodingError, InvalidTableSizeError


def d1():
    out = []
    try:
        Decoder().decode(b'\xff' + b'\xff' * 2100 + b'\x01')
        out.append('no exception')
    except HPACKDecodingError as e:
        pass
    except Exception as e:
        out.append('escape %s' % type(e).__name__)
    t = time.process_time()
    try:
        Decoder().decode(b'\xff' + b'\xff' * 200000)
    except HPACKDecodingError:
        pass
    dt = time.process_time() - t
    if dt > 1.0:
        out.append('200k continuation octets took %.1fs CPU' % dt)
    return out


def d2():
    d = Decoder()
    buf = bytearray(b'\x40\x03abc\x03xyz')
    d.decode(buf)
    buf[2:5] = b'QQQ'
    r = d.decode(b'\xbe', raw=True)
    out = []
    if r != [(b'abc', b'xyz')]:
        out.append('later block returned %r after the caller overwrote its buffer' % (r,))
    try:
        buf.extend(b'x')
    except BufferError:
        out.append('caller buffer pinned (BufferError on resize)')
    return out


def d3():
    e = Encoder(); d = Decoder()
    e.header_table_size = 40
    e.header_table_size = 40
    blk = e.encode([(b'a', b'b')])
    d.decode(blk)
    if d.header_table_size != e.header_table_size:
        return ['sizes 40,40: block %s carries no update; decoder table size %d, encoder %d' % (blk.hex(), d.header_table_size, e.header_table_size)]
    return []


def d4():
    e = Encoder()
    blk = e.encode([(b':authority', b'')], huffman=False)
    out = []
    if blk != b'\x81':
        out.append("(':authority','') encoded as %s, not the single index 81; inserted=%d" % (blk.hex(), len(e.header_table.dynamic_entries)))
    return out


def d5():
    e = Encoder(); d = Decoder()
    for s in (40, 100, 40):
        e.header_table_size = s
    blk = e.encode([])
    d.max_allowed_table_size = 40
    try:
        d.decode(blk)
    except InvalidTableSizeError:
        return ['sizes 40,100,40 -> %s: update 100 exceeds the size in force (40); a peer that permits 40 rejects the block' % blk.hex()]
    return []


if __name__ == '__main__':
    which = sys.argv[1:] or ['D1', 'D2', 'D3', 'D4', 'D5']
    for k in which:
        r = {'D1': d1, 'D2': d2, 'D3': d3, 'D4': d4, 'D5': d5}[k]()
        print(k, 'REPRODUCED: ' + '; '.join(r) if r else 'not-reproduced')
